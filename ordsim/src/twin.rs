//! Twin runs compared by canonical dump: C12 (schedules) and C15 (optional
//! index flags).

use {
  crate::{
    check::{Ctx, RunReport, fault_free_update_ok, finish_report},
    exec::Exec,
    gen_::*,
    oracle::{self, Dump, v},
    rng::Rng,
    scenario::*,
  },
  bitcoin::OutPoint,
  std::collections::BTreeMap,
};

pub fn blocks_of(sc: &Scenario) -> Vec<BlockSpec> {
  let mut blocks = Vec::new();
  for op in &sc.ops {
    if let Op::Mine(b) = op {
      blocks.extend(b.iter().cloned());
    }
  }
  blocks
}

/// Index `blocks` in the plainest way: one update, no faults, prefetch far ahead.
/// Returns (masked dump, projected view) at `height_limit` blocks (or the tip).
fn reference_run(
  config: &Config,
  seed: u64,
  blocks: &[BlockSpec],
  height_limit: Option<u32>,
  ctx: &mut Ctx,
) -> Option<(Dump, Projection)> {
  let mut ex = Exec::new(config, seed);
  ex.mine(blocks);
  let r = ex.update(&UpdateSpec {
    lag: 31,
    height_limit,
    ..Default::default()
  });
  if !fault_free_update_ok(&r, ctx) {
    ex.finish();
    return None;
  }
  let dump = ex.index().verif_dump().ok()?;
  let projection = project(&ex);
  ex.finish();
  Some((oracle::masked(&dump), projection))
}

fn c12_reference_config(subject: &Config) -> Config {
  Config {
    commit_interval: 5000,
    index_cache_size: 1 << 24,
    bitcoin_rpc_limit: 12,
    // settings that legitimately select what is indexed stay as they are
    ..subject.clone()
  }
}

/// In a quarter of the update calls a second caller of `Index::update` wins
/// the write lock right after one of the first mid-batch commits and indexes
/// to the tip; the first caller has blocks queued by its prefetch thread and
/// must notice ("another update has run between committing and beginning the
/// new write transaction"). Only with a full UTXO index: the fetcher's batch
/// bookkeeping of the simulator is per update.
pub fn compete(ops: &mut [Op], rng: &mut Rng, fetch_path: bool) {
  if fetch_path {
    return;
  }
  for op in ops.iter_mut() {
    if let Op::Update(u) = op
      && rng.chance(1, 4)
    {
      u.competing_update = Some(rng.below(3) as u32);
    }
  }
}

/// Thorough tier: for one small chain per batch, EVERY partition of its blocks
/// into update calls x every commit interval 1..n x {never reopen, reopen
/// between all calls}.
fn gen_c12_enumerated(seed: u64) -> Option<Scenario> {
  let index = seed & 0xffff_ffff;
  let base = seed >> 32;
  if index >= 20_000 {
    return None;
  }
  let root = Rng::new(base.wrapping_mul(0x9e37_79b9).wrapping_add(1212));
  let mut crng = root.fork("config");
  let mut wrng = root.fork("workload");
  let mut config = gen_config(&mut crng);
  config.index_sats = crng.chance(2, 3);
  config.index_addresses = crng.chance(1, 2);
  config.index_runes = crng.chance(2, 3);
  // forced commits at savepoints would blur the commit interval
  config.integration_test = true;
  let f = Features::swarm(&everything_features(), &mut wrng);
  let n = 5 + wrng.usize(3);
  let blocks = gen_chain(&mut wrng, &f, n);
  let partitions = 1u64 << (n - 1);
  let total = partitions * n as u64 * 2;
  if index >= total {
    return None;
  }
  let reopen = index % 2 == 1;
  let interval = 1 + (index / 2) % n as u64;
  let cuts = index / 2 / n as u64; // bit i set = a new update call starts after block i
  config.commit_interval = interval as u32;
  let lag = *Rng::new(seed).fork("lag").pick(&[0u32, 1, 2, 7, 31]);
  let mut ops = Vec::new();
  let mut part: Vec<BlockSpec> = Vec::new();
  for (i, b) in blocks.into_iter().enumerate() {
    part.push(b);
    if i + 1 == n || cuts & (1 << i) != 0 {
      ops.push(Op::Mine(std::mem::take(&mut part)));
      ops.push(Op::Update(UpdateSpec {
        lag,
        ..Default::default()
      }));
      if reopen && i + 1 != n {
        ops.push(Op::Reopen);
      }
    }
  }
  Some(Scenario {
    seed,
    profile: format!("C12/enumerated total={total} index={index}"),
    config,
    ops,
    server: None,
  })
}

pub fn gen_c12(seed: u64, thorough: bool) -> Scenario {
  if thorough
    && let Some(sc) = gen_c12_enumerated(seed)
  {
    return sc;
  }
  let root = Rng::new(seed);
  let mut crng = root.fork("config");
  let mut wrng = root.fork("workload");
  let mut srng = root.fork("schedule");
  let mut config = gen_config(&mut crng);
  config.index_sats = crng.chance(2, 3);
  config.index_addresses = crng.chance(1, 2);
  config.index_runes = crng.chance(2, 3);
  config.commit_interval = 1 + crng.below(12) as u32;
  // a fifth of the chains are plain value transfers with the historic
  // oddities (duplicate coinbase txids, underpaying coinbases)
  let f = if wrng.chance(1, 5) {
    Features::swarm(&sats_features(), &mut wrng)
  } else {
    Features::swarm(&everything_features(), &mut wrng)
  };
  let n = 4 + wrng.usize(if thorough { 48 } else { 28 });
  let blocks = gen_chain(&mut wrng, &f, n);
  let fetch_path = !(config.index_sats || config.index_addresses);
  let mut ops = schedule_ops(&mut srng, blocks, fetch_path, false, true);
  ops.push(Op::Update(gen_transparent_update(&mut srng, fetch_path)));
  compete(&mut ops, &mut srng, fetch_path);
  Scenario {
    seed,
    profile: "C12/twin-schedule".into(),
    config,
    ops,
    server: None,
  }
}

pub fn run_c12(sc: &Scenario) -> RunReport {
  let start = std::time::Instant::now();
  let mut ctx = Ctx {
    property: "C12".into(),
    report: RunReport {
      seed: sc.seed,
      property: "C12".into(),
      profile: sc.profile.clone(),
      ..Default::default()
    },
    oracle_rng: Rng::new(sc.seed).fork("oracle"),
  };

  // subject: the generated schedule
  let mut ex = Exec::new(&sc.config, sc.seed);
  let mut ok = true;
  let mut checkpoints: Vec<(u32, Dump)> = Vec::new();
  let n_updates = sc.ops.iter().filter(|o| matches!(o, Op::Update(_))).count();
  let pick = if n_updates > 1 {
    Some(ctx.oracle_rng.usize(n_updates - 1))
  } else {
    None
  };
  let mut update_no = 0;
  for op in &sc.ops {
    match op {
      Op::Mine(b) => ex.mine(b),
      Op::Reopen => {
        if ex.is_open()
          && let Err(e) = ex.reopen()
        {
          ctx.report.inconclusive = Some(format!("reopen failed: {e}"));
          ok = false;
          break;
        }
      }
      Op::Update(u) => {
        let r = ex.update(u);
        if !fault_free_update_ok(&r, &mut ctx) {
          ok = false;
          break;
        }
        if Some(update_no) == pick
          && let (Ok(count), Ok(dump)) = (ex.index().block_count(), ex.index().verif_dump())
        {
          checkpoints.push((count, oracle::masked(&dump)));
        }
        update_no += 1;
      }
      _ => {}
    }
  }
  let mut final_digest = 0;
  if !ex.is_open() {
    ok = false;
  }
  if ok {
    let subject = ex.index().verif_dump().map(|d| oracle::masked(&d));
    let count = ex.index().block_count().unwrap_or(0);
    match subject {
      Err(e) => ctx.report.harness_error = Some(format!("dump: {e:#}")),
      Ok(subject) => {
        final_digest = oracle::digest(&subject);
        checkpoints.push((count, subject));
      }
    }
  }
  let blocks = blocks_of(sc);
  let ref_config = c12_reference_config(&sc.config);
  let report = finish_report(ex, std::mem::take(&mut ctx.report), sc, final_digest);
  ctx.report = report;

  if ok && ctx.report.harness_error.is_none() {
    let tip = blocks.len() as u32 + 1;
    for (count, subject) in &checkpoints {
      let limit = if *count == tip { None } else { Some(*count) };
      let Some((reference, _)) = reference_run(&ref_config, sc.seed, &blocks, limit, &mut ctx) else {
        break;
      };
      ctx.report.checks += 1;
      if &reference != subject {
        let detail = oracle::diff(&reference, subject).unwrap_or_default();
        ctx.report.violations.push(v(
          "C12",
          "content_depends_on_schedule",
          format!("at {count} blocks: reference (one update, one commit) vs subject schedule: {detail}"),
        ));
        break;
      }
    }
  }
  ctx.report.nontrivial = ctx.report.checks > 0 && ctx.report.updates >= 2 && ctx.report.txs >= 3;
  ctx.report.wall_us = start.elapsed().as_micros() as u64;
  ctx.report
}

// ------------------------------------------------------------------------ C15

/// What C15 says must not depend on the optional indexes.
#[derive(Clone, Debug, PartialEq, Eq, Default)]
pub struct Projection {
  /// id, number, height, fee, charms without sat-derived ones, parents, timestamp, satpoint
  pub inscriptions: Vec<(String, i32, u32, u64, u16, Vec<u32>, u32, Option<(OutPoint, u64)>)>,
  pub numbers: Vec<(i32, u32)>,
  pub height_brackets: Vec<(u32, u32)>,
  pub rune_entries: Vec<String>,
  pub rune_balances: Vec<(OutPoint, Vec<(String, u128)>)>,
  pub tables: Vec<(String, Vec<(Vec<u8>, Vec<u8>)>)>,
  pub statistics: BTreeMap<u64, u64>,
}

const SAT_CHARMS: u16 = (1 << 0) | (1 << 2) | (1 << 3) | (1 << 5) | (1 << 6) | (1 << 9) | (1 << 11) | (1 << 13);

pub fn project(ex: &Exec) -> Projection {
  let index = ex.index();
  let mut p = Projection::default();
  if let Ok(entries) = index.verif_inscription_entries() {
    for (e, satpoint) in entries {
      p.inscriptions.push((
        e.id.to_string(),
        e.inscription_number,
        e.height,
        e.fee,
        e.charms & !SAT_CHARMS,
        e.parents.clone(),
        e.timestamp,
        satpoint.map(|s| (s.outpoint, s.offset)),
      ));
    }
  }
  p.numbers = index.verif_number_to_sequence_number().unwrap_or_default();
  p.height_brackets = index.verif_height_to_last_sequence_number().unwrap_or_default();
  if let Ok(runes) = index.runes() {
    for (id, entry) in runes {
      p.rune_entries.push(format!("{id} {entry:?}"));
    }
  }
  if let Ok(balances) = index.get_rune_balances() {
    for (o, list) in balances {
      p.rune_balances
        .push((o, list.into_iter().map(|(id, a)| (id.to_string(), a)).collect()));
    }
  }
  if let Ok(dump) = index.verif_dump() {
    for (name, rows) in dump {
      if matches!(
        name.as_str(),
        "INSCRIPTION_ID_TO_SEQUENCE_NUMBER"
          | "SEQUENCE_NUMBER_TO_CHILDREN"
          | "COLLECTION_SEQUENCE_NUMBER_TO_LATEST_CHILD_SEQUENCE_NUMBER"
          | "LATEST_CHILD_SEQUENCE_NUMBER_TO_COLLECTION_SEQUENCE_NUMBER"
          | "GALLERY_SEQUENCE_NUMBERS"
          | "HOME_INSCRIPTIONS"
          | "RUNE_TO_RUNE_ID"
          | "TRANSACTION_ID_TO_RUNE"
          | "SEQUENCE_NUMBER_TO_RUNE_ID"
          | "HEIGHT_TO_BLOCK_HEADER"
      ) {
        p.tables.push((name, rows));
      }
    }
  }
  if let Ok(stats) = index.verif_statistics() {
    for k in [
      oracle::STAT_BLESSED,
      oracle::STAT_CURSED,
      oracle::STAT_UNBOUND,
      oracle::STAT_RUNES,
      oracle::STAT_RESERVED_RUNES,
    ] {
      p.statistics.insert(k, stats.get(&k).copied().unwrap_or(0));
    }
  }
  p
}

fn projection_diff(a: &Projection, b: &Projection) -> String {
  if a.inscriptions != b.inscriptions {
    for (x, y) in a.inscriptions.iter().zip(&b.inscriptions) {
      if x != y {
        return format!("inscription entries differ: {x:?} vs {y:?}");
      }
    }
    return format!(
      "inscription counts differ: {} vs {}",
      a.inscriptions.len(),
      b.inscriptions.len()
    );
  }
  if a.numbers != b.numbers {
    return "inscription number table differs".into();
  }
  if a.height_brackets != b.height_brackets {
    return "height brackets differ".into();
  }
  if a.rune_entries != b.rune_entries {
    return format!("rune entries differ: {:?} vs {:?}", a.rune_entries, b.rune_entries);
  }
  if a.rune_balances != b.rune_balances {
    return format!("rune balances differ: {:?} vs {:?}", a.rune_balances, b.rune_balances);
  }
  if a.statistics != b.statistics {
    return format!("statistics differ: {:?} vs {:?}", a.statistics, b.statistics);
  }
  for ((na, ra), (_, rb)) in a.tables.iter().zip(&b.tables) {
    if ra != rb {
      return format!("table {na} differs");
    }
  }
  "projections differ".into()
}

pub fn gen_c15(seed: u64, thorough: bool) -> Scenario {
  let root = Rng::new(seed);
  let mut crng = root.fork("config");
  let mut wrng = root.fork("workload");
  let mut srng = root.fork("schedule");
  let mut config = gen_config(&mut crng);
  // the subject flags; the run compares against the full-index twin
  // every combination except all-on; half of the runs take the node-fetch
  // path (neither sats nor addresses)
  let combo = if crng.chance(1, 2) {
    *crng.pick(&[0u32, 4])
  } else {
    crng.below(7) as u32
  };
  config.index_sats = combo & 1 != 0;
  config.index_addresses = combo & 2 != 0;
  config.index_transactions = combo & 4 != 0;
  config.index_runes = true;
  config.no_index_inscriptions = false;
  let mut base = everything_features();
  base.zero_value_input = 20;
  base.same_block_spend = 40;
  base.multi_input = 60;
  let mut f = Features::swarm(&base, &mut wrng);
  if thorough && wrng.chance(1, 6) {
    f.txs_per_block = (2, 10);
  }
  let n = 4 + wrng.usize(if thorough { 44 } else { 26 });
  let mut blocks = gen_chain(&mut wrng, &f, n);
  let fetch_path = !(config.index_sats || config.index_addresses);
  if fetch_path {
    // Without sats and addresses ord only has a partial UTXO set when
    // inscriptions activate after genesis: earlier blocks are fetched as
    // headers and outputs created in them come from the node. Real chains
    // have nothing ord-relevant before that height, so neither does this one.
    let h = (2 + crng.below(12) as u32).min(blocks.len() as u32 - 2).max(2);
    config.first_inscription_height = Some(h);
    if crng.chance(1, 2) {
      config.chain = ChainKind::Signet;
    }
    for b in blocks.iter_mut().take(h as usize - 1) {
      b.txs.clear();
      // outputs of different values, so that a value fetched for the wrong
      // outpoint is a different value
      if crng.chance(2, 3) {
        b.coinbase.outputs = (0..1 + crng.usize(3))
          .map(|i| OutSpec {
            weight: 1 + crng.below(5) as u32 + i as u32,
            exact: None,
            script: ScriptSpec::P2tr(crng.below(40) as u16),
          })
          .collect();
      }
    }
  }
  let mut ops = schedule_ops(&mut srng, blocks, fetch_path, false, true);
  ops.push(Op::Update(gen_transparent_update(&mut srng, fetch_path)));
  Scenario {
    seed,
    profile: "C15/twin-flags".into(),
    config,
    ops,
    server: None,
  }
}

pub fn run_c15(sc: &Scenario) -> RunReport {
  let start = std::time::Instant::now();
  let mut ctx = Ctx {
    property: "C15".into(),
    report: RunReport {
      seed: sc.seed,
      property: "C15".into(),
      profile: sc.profile.clone(),
      ..Default::default()
    },
    oracle_rng: Rng::new(sc.seed).fork("oracle"),
  };
  let mut ex = Exec::new(&sc.config, sc.seed);
  let mut ok = true;
  for op in &sc.ops {
    match op {
      Op::Mine(b) => ex.mine(b),
      Op::Reopen => {
        if ex.is_open()
          && let Err(e) = ex.reopen()
        {
          ctx.report.inconclusive = Some(format!("reopen failed: {e}"));
          ok = false;
          break;
        }
      }
      Op::Update(u) => {
        let r = ex.update(u);
        if !fault_free_update_ok(&r, &mut ctx) {
          ok = false;
          break;
        }
      }
      _ => {}
    }
  }
  if !ex.is_open() {
    ok = false;
  }
  let mut subject = if ok { Some(project(&ex)) } else { None };
  // Without the sat index ord starts counting lost sats at the inscription
  // activation height, with it at genesis: the offset of an inscription in
  // the lost-sats pseudo-output then differs by the sats lost before
  // activation (known finding, see DESIGN). Report it as its own class and
  // normalise, so that any other difference is still seen.
  let pre_lost = match sc.config.first_inscription_height {
    Some(h) if h > 0 && !sc.config.index_sats && !sc.config.index_addresses => ex.sim.snapshot(|s| {
      s.world
        .models
        .get(h as usize - 1)
        .map(|m| crate::model::ranges_len(&m.lost))
        .unwrap_or(0)
    }),
    _ => 0,
  };
  let mut shifted = 0;
  if pre_lost > 0
    && let Some(p) = &mut subject
  {
    for i in &mut p.inscriptions {
      if let Some((outpoint, offset)) = &mut i.7
        && *outpoint == OutPoint::null()
      {
        *offset += pre_lost;
        shifted += 1;
      }
    }
  }
  let final_digest = if ok {
    ex.index()
      .verif_dump()
      .map(|d| oracle::digest(&oracle::masked(&d)))
      .unwrap_or(0)
  } else {
    0
  };
  let fetched = ex.sim.snapshot(|s| s.probes.get("input.fetched").copied().unwrap_or(0));
  let report = finish_report(ex, std::mem::take(&mut ctx.report), sc, final_digest);
  ctx.report = report;

  if let Some(subject) = subject {
    let full = Config {
      index_sats: true,
      index_addresses: true,
      index_transactions: true,
      commit_interval: 5000,
      ..sc.config.clone()
    };
    if let Some((_, reference)) = reference_run(&full, sc.seed, &blocks_of(sc), None, &mut ctx) {
      ctx.report.checks += 1;
      if shifted > 0 {
        ctx.report.violations.push(v(
          "C15",
          "lost_inscription_offset_depends_on_sat_index",
          format!(
            "{shifted} inscription(s) lost to fees are located {pre_lost} sats earlier in the lost-sats pseudo-output without the sat index ({pre_lost} sats were lost before the inscription activation height, which only the sat index counts)"
          ),
        ));
      }
      if reference != subject {
        ctx.report.violations.push(v(
          "C15",
          "optional_index_changes_result",
          format!(
            "sats={} addresses={} transactions={} vs all on: {}",
            sc.config.index_sats,
            sc.config.index_addresses,
            sc.config.index_transactions,
            projection_diff(&reference, &subject)
          ),
        ));
      }
    }
  }
  let has_content = ctx.report.facts.get("model.inscriptions").copied().unwrap_or(0)
    + ctx.report.facts.get("model.runes").copied().unwrap_or(0)
    >= 1;
  let fetch_path = !(sc.config.index_sats || sc.config.index_addresses);
  ctx.report.nontrivial = ctx.report.checks > 0 && has_content && (!fetch_path || fetched > 0);
  ctx.report.wall_us = start.elapsed().as_micros() as u64;
  ctx.report
}
