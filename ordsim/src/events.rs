//! C37: replaying the emitted index events reproduces the indexed state.

use {
  crate::{
    check::{Ctx, RunReport, fault_free_update_ok, finish_report},
    exec::Exec,
    gen_::*,
    oracle::{self, Violation, unbound_outpoint, v},
    rng::Rng,
    scenario::*,
  },
  bitcoin::{OutPoint, Txid},
  ord::{InscriptionId, index::event::Event},
  ordinals::{Charm, RuneId, SatPoint},
  std::collections::{BTreeMap, BTreeSet},
};

#[derive(Default)]
pub struct Replayer {
  /// id -> (sequence number, charms at creation, location; None = unbound, parents)
  pub inscriptions: BTreeMap<InscriptionId, (u32, u16, Option<SatPoint>, Vec<InscriptionId>)>,
  /// id -> block height named by the creation event
  pub created_at: BTreeMap<InscriptionId, u32>,
  /// highest block height named by any event so far
  last_height: u32,
  pub etched: BTreeMap<RuneId, Txid>,
  pub mints: BTreeMap<RuneId, (u128, u128)>, // count, total amount
  pub burned: BTreeMap<RuneId, u128>,
  pub balances: BTreeMap<OutPoint, BTreeMap<RuneId, u128>>,
  seen_txids: BTreeSet<Txid>,
  pub counts: BTreeMap<&'static str, u64>,
  pub errors: Vec<String>,
}

impl Replayer {
  fn spend_inputs(&mut self, txid: Txid, inputs_of: &dyn Fn(Txid) -> Vec<OutPoint>) {
    // the first rune event naming a transaction spends that transaction's inputs
    if self.seen_txids.insert(txid) {
      for input in inputs_of(txid) {
        self.balances.remove(&input);
      }
    }
  }

  /// The stream is emitted while blocks are indexed in height order, and a rune
  /// event cannot precede the block that etched its rune.
  fn heights(&mut self, event: &Event) {
    let (height, rune) = match event {
      Event::InscriptionCreated { block_height, .. } | Event::InscriptionTransferred { block_height, .. } => {
        (*block_height, None)
      }
      Event::RuneBurned {
        block_height, rune_id, ..
      }
      | Event::RuneEtched {
        block_height, rune_id, ..
      }
      | Event::RuneMinted {
        block_height, rune_id, ..
      }
      | Event::RuneTransferred {
        block_height, rune_id, ..
      } => (*block_height, Some(*rune_id)),
    };
    if height < self.last_height {
      self.errors.push(format!(
        "event of block {height} after an event of block {}: {event:?}",
        self.last_height
      ));
    }
    self.last_height = self.last_height.max(height);
    if let Some(id) = rune {
      let etching = matches!(event, Event::RuneEtched { .. });
      if (etching && u64::from(height) != id.block) || u64::from(height) < id.block {
        self
          .errors
          .push(format!("rune {id} named by an event of block {height}: {event:?}"));
      }
    }
  }

  pub fn apply(&mut self, event: &Event, inputs_of: &dyn Fn(Txid) -> Vec<OutPoint>) {
    self.heights(event);
    match event {
      Event::InscriptionCreated {
        block_height,
        charms,
        inscription_id,
        location,
        parent_inscription_ids,
        sequence_number,
      } => {
        *self.counts.entry("inscription_created").or_default() += 1;
        self.created_at.insert(*inscription_id, *block_height);
        if self
          .inscriptions
          .insert(
            *inscription_id,
            (*sequence_number, *charms, *location, parent_inscription_ids.clone()),
          )
          .is_some()
        {
          self.errors.push(format!("{inscription_id} created twice"));
        }
      }
      Event::InscriptionTransferred {
        inscription_id,
        new_location,
        old_location,
        sequence_number,
        ..
      } => {
        *self.counts.entry("inscription_transferred").or_default() += 1;
        match self.inscriptions.get_mut(inscription_id) {
          None => self
            .errors
            .push(format!("{inscription_id} transferred before it was created")),
          Some(entry) => {
            if entry.0 != *sequence_number {
              self.errors.push(format!(
                "{inscription_id} transferred with sequence number {sequence_number}, created with {}",
                entry.0
              ));
            }
            if entry.2 != Some(*old_location) {
              self.errors.push(format!(
                "{inscription_id} transferred from {old_location}, but the events so far place it at {:?}",
                entry.2
              ));
            }
            entry.2 = Some(*new_location);
          }
        }
      }
      Event::RuneEtched { rune_id, txid, .. } => {
        *self.counts.entry("rune_etched").or_default() += 1;
        self.spend_inputs(*txid, inputs_of);
        if self.etched.insert(*rune_id, *txid).is_some() {
          self.errors.push(format!("{rune_id} etched twice"));
        }
      }
      Event::RuneMinted {
        rune_id, amount, txid, ..
      } => {
        *self.counts.entry("rune_minted").or_default() += 1;
        self.spend_inputs(*txid, inputs_of);
        let m = self.mints.entry(*rune_id).or_default();
        m.0 += 1;
        m.1 = m.1.saturating_add(*amount);
      }
      Event::RuneBurned {
        rune_id, amount, txid, ..
      } => {
        *self.counts.entry("rune_burned").or_default() += 1;
        self.spend_inputs(*txid, inputs_of);
        let b = self.burned.entry(*rune_id).or_default();
        *b = b.saturating_add(*amount);
      }
      Event::RuneTransferred {
        rune_id,
        amount,
        outpoint,
        txid,
        ..
      } => {
        *self.counts.entry("rune_transferred").or_default() += 1;
        self.spend_inputs(*txid, inputs_of);
        if outpoint.txid != *txid {
          self
            .errors
            .push(format!("transfer event of {txid} names output {outpoint}"));
        }
        let slot = self.balances.entry(*outpoint).or_default().entry(*rune_id).or_default();
        *slot = slot.saturating_add(*amount);
      }
    }
  }
}

pub fn compare(ex: &Exec, rp: &Replayer, seeded: bool, out: &mut Vec<Violation>) -> Result<(), String> {
  const P: &str = "C37";
  let index = ex.index();
  for e in &rp.errors {
    out.push(v(P, "inconsistent_event_stream", e.clone()));
  }
  let entries = index.verif_inscription_entries().map_err(|e| format!("{e:#}"))?;
  if entries.len() != rp.inscriptions.len() {
    out.push(v(
      P,
      "inscription_count",
      format!("{} inscriptions indexed, {} creation events", entries.len(), rp.inscriptions.len()),
    ));
  }
  let burned_bit = 1u16 << (Charm::Burned as u16);
  for (entry, satpoint) in &entries {
    let Some((seq, charms, location, parents)) = rp.inscriptions.get(&entry.id) else {
      out.push(v(P, "creation_event_missing", format!("{} has no creation event", entry.id)));
      continue;
    };
    if *seq != entry.sequence_number {
      out.push(v(
        P,
        "sequence_number",
        format!("{}: event {seq}, index {}", entry.id, entry.sequence_number),
      ));
    }
    if rp.created_at.get(&entry.id) != Some(&entry.height) {
      out.push(v(
        P,
        "creation_height",
        format!(
          "{}: creation event names block {:?}, index height {}",
          entry.id,
          rp.created_at.get(&entry.id),
          entry.height
        ),
      ));
    }
    if charms & !burned_bit != entry.charms & !burned_bit || (charms & burned_bit != 0 && entry.charms & burned_bit == 0) {
      out.push(v(
        P,
        "charms_at_creation",
        format!("{}: event charms {charms:#b}, index charms {:#b}", entry.id, entry.charms),
      ));
    }
    let want = match location {
      Some(l) => Some(*l),
      None => None,
    };
    match (want, satpoint) {
      (None, Some(sp)) if sp.outpoint == unbound_outpoint() => {}
      (Some(w), Some(sp)) if w == *sp => {}
      (w, sp) => out.push(v(
        P,
        "location",
        format!("{}: replayed location {w:?}, index location {sp:?}", entry.id),
      )),
    }
    let want_parents: Vec<InscriptionId> = entry
      .parents
      .iter()
      .filter_map(|p| entries.get(*p as usize).map(|(e, _)| e.id))
      .collect();
    if &want_parents != parents {
      out.push(v(
        P,
        "parents",
        format!("{}: event parents {parents:?}, index parents {want_parents:?}", entry.id),
      ));
    }
  }

  let runes = index.runes().map_err(|e| format!("{e:#}"))?;
  let mut index_ids = BTreeSet::new();
  for (id, entry) in &runes {
    if seeded && entry.etching == bitcoin::hashes::Hash::all_zeros() {
      continue;
    }
    index_ids.insert(*id);
    match rp.etched.get(id) {
      None => out.push(v(P, "etch_event_missing", format!("{id} {} has no etching event", entry.spaced_rune))),
      Some(txid) if *txid != entry.etching => out.push(v(
        P,
        "etching_txid",
        format!("{id}: event {txid}, index {}", entry.etching),
      )),
      _ => {}
    }
    let (count, total) = rp.mints.get(id).copied().unwrap_or((0, 0));
    if count != entry.mints {
      out.push(v(
        P,
        "mint_count",
        format!("{id}: {count} mint events, index says {} mints", entry.mints),
      ));
    }
    let amount = entry.terms.and_then(|t| t.amount).unwrap_or(0);
    if Some(total) != entry.mints.checked_mul(amount) {
      out.push(v(
        P,
        "mint_amount",
        format!("{id}: mint events total {total}, index {} x {amount}", entry.mints),
      ));
    }
    let burned = rp.burned.get(id).copied().unwrap_or(0);
    if burned != entry.burned {
      out.push(v(
        P,
        "burned_total",
        format!("{id}: burn events total {burned}, index burned {}", entry.burned),
      ));
    }
  }
  for id in rp.etched.keys() {
    if !index_ids.contains(id) {
      out.push(v(P, "etch_event_without_rune", format!("{id} has an etching event but no entry")));
    }
  }
  let balances: BTreeMap<OutPoint, BTreeMap<RuneId, u128>> = index
    .get_rune_balances()
    .map_err(|e| format!("{e:#}"))?
    .into_iter()
    .map(|(o, l)| (o, l.into_iter().collect()))
    .collect();
  let replayed: BTreeMap<OutPoint, BTreeMap<RuneId, u128>> = rp
    .balances
    .iter()
    .map(|(o, m)| (*o, m.iter().filter(|(_, a)| **a > 0).map(|(k, a)| (*k, *a)).collect::<BTreeMap<_, _>>()))
    .filter(|(_, m): &(OutPoint, BTreeMap<RuneId, u128>)| !m.is_empty())
    .collect();
  if balances != replayed {
    let mut detail = String::new();
    for (o, want) in &balances {
      if replayed.get(o) != Some(want) {
        detail += &format!(" {o}: index {want:?} replay {:?};", replayed.get(o));
      }
    }
    for (o, got) in &replayed {
      if !balances.contains_key(o) {
        detail += &format!(" {o}: index nothing, replay {got:?};");
      }
    }
    out.push(v(P, "balances", detail));
  }
  Ok(())
}

pub fn gen_c37(seed: u64, thorough: bool) -> Scenario {
  let root = Rng::new(seed);
  let mut crng = root.fork("config");
  let mut wrng = root.fork("workload");
  let mut srng = root.fork("schedule");
  let mut config = gen_config(&mut crng);
  config.events = true;
  config.index_runes = crng.chance(4, 5);
  config.index_sats = crng.chance(1, 2);
  config.index_addresses = crng.chance(1, 2);
  let f = Features::swarm(&everything_features(), &mut wrng);
  let n = 6 + wrng.usize(if thorough { 50 } else { 30 });
  let blocks = gen_chain(&mut wrng, &f, n);
  let mut ops = schedule_ops(&mut srng, blocks, false, false, true);
  crate::twin::compete(&mut ops, &mut srng, false);
  Scenario {
    seed,
    profile: "C37/events".into(),
    config,
    ops,
    server: None,
  }
}

pub fn run_c37(sc: &Scenario) -> RunReport {
  let start = std::time::Instant::now();
  let mut ctx = Ctx {
    property: "C37".into(),
    report: RunReport {
      seed: sc.seed,
      property: "C37".into(),
      profile: sc.profile.clone(),
      ..Default::default()
    },
    oracle_rng: Rng::new(sc.seed).fork("oracle"),
  };
  let mut ex = Exec::new(&sc.config, sc.seed);
  let mut rp = Replayer::default();
  let seeded = sc.config.chain == ChainKind::Mainnet && sc.config.index_runes;
  for op in &sc.ops {
    match op {
      Op::Mine(b) => ex.mine(b),
      Op::Reopen => {
        if ex.is_open()
          && let Err(e) = ex.reopen()
        {
          ctx.report.inconclusive = Some(format!("reopen failed: {e}"));
          break;
        }
      }
      Op::Update(u) => {
        let r = ex.update(u);
        if !fault_free_update_ok(&r, &mut ctx) {
          break;
        }
        let events = ex.take_events();
        let sim = ex.sim.clone();
        let inputs_of = move |txid: Txid| -> Vec<OutPoint> {
          sim.snapshot(|s| {
            s.world
              .txs
              .get(&txid)
              .map(|tx| tx.input.iter().map(|i| i.previous_output).collect())
              .unwrap_or_default()
          })
        };
        for e in &events {
          rp.apply(e, &inputs_of);
        }
        let mut out = Vec::new();
        if let Err(e) = compare(&ex, &rp, seeded, &mut out) {
          ctx.report.harness_error = Some(e);
        }
        ctx.report.checks += 1;
        ctx.report.violations.extend(out);
      }
      _ => {}
    }
    if !ctx.report.violations.is_empty() || ctx.report.harness_error.is_some() {
      break;
    }
  }
  let final_digest = if ex.is_open() {
    ex.index()
      .verif_dump()
      .map(|d| oracle::digest(&oracle::masked(&d)))
      .unwrap_or(0)
  } else {
    0
  };
  for (k, val) in &rp.counts {
    ctx.report.facts.insert(format!("events.{k}"), *val);
  }
  let facts = std::mem::take(&mut ctx.report.facts);
  let mut report = finish_report(ex, ctx.report, sc, final_digest);
  report.facts.extend(facts);
  let total: u64 = rp.counts.values().sum();
  report.nontrivial = report.checks > 0 && total >= 3 && rp.counts.len() >= 2;
  report.wall_us = start.elapsed().as_micros() as u64;
  report
}
