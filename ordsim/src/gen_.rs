//! Scenario generator (swarm style): every run first draws which feature
//! groups are on and how strongly, then a chain, then a schedule.

use crate::{rng::Rng, scenario::*};

/// Per-run feature weights, each 0..=100 (percent chance where it applies).
#[derive(Clone, Debug)]
pub struct Features {
  pub fee_free: u32,
  pub big_fee: u32,
  pub same_block_spend: u32,
  pub multi_input: u32,
  pub multi_output: u32,
  pub zero_value_output: u32,
  pub op_return_output: u32,
  pub odd_scripts: u32,
  pub pool_scripts: u32,
  pub coinbase_multi: u32,
  pub coinbase_under: u32,
  pub coinbase_dup: u32,
  pub envelopes: u32,
  pub env_flaws: u32,
  pub pointers: u32,
  pub parents: u32,
  pub delegates: u32,
  pub move_inscriptions: u32,
  pub zero_value_input: u32,
  pub runestones: u32,
  pub etchings: u32,
  pub mints: u32,
  pub edicts: u32,
  pub cenotaphs: u32,
  pub move_runes: u32,
  pub raw_garbage: u32,
  pub txs_per_block: (u32, u32),
}

impl Features {
  pub fn none() -> Self {
    Self {
      fee_free: 0,
      big_fee: 0,
      same_block_spend: 0,
      multi_input: 0,
      multi_output: 0,
      zero_value_output: 0,
      op_return_output: 0,
      odd_scripts: 0,
      pool_scripts: 0,
      coinbase_multi: 0,
      coinbase_under: 0,
      coinbase_dup: 0,
      envelopes: 0,
      env_flaws: 0,
      pointers: 0,
      parents: 0,
      delegates: 0,
      move_inscriptions: 0,
      zero_value_input: 0,
      runestones: 0,
      etchings: 0,
      mints: 0,
      edicts: 0,
      cenotaphs: 0,
      move_runes: 0,
      raw_garbage: 0,
      txs_per_block: (0, 3),
    }
  }

  /// Draw a swarm configuration: each group of `base` is kept with
  /// probability 3/4 and its weight rescaled.
  pub fn swarm(base: &Features, rng: &mut Rng) -> Self {
    let mut f = base.clone();
    let mut knob = |w: &mut u32| {
      if *w == 0 {
        return;
      }
      if rng.chance(1, 4) {
        *w = 0;
      } else {
        *w = (*w * (50 + rng.below(101) as u32) / 100).clamp(1, 100);
      }
    };
    knob(&mut f.fee_free);
    knob(&mut f.big_fee);
    knob(&mut f.same_block_spend);
    knob(&mut f.multi_input);
    knob(&mut f.multi_output);
    knob(&mut f.zero_value_output);
    knob(&mut f.op_return_output);
    knob(&mut f.odd_scripts);
    knob(&mut f.pool_scripts);
    knob(&mut f.coinbase_multi);
    knob(&mut f.coinbase_under);
    knob(&mut f.coinbase_dup);
    knob(&mut f.env_flaws);
    knob(&mut f.pointers);
    knob(&mut f.parents);
    knob(&mut f.delegates);
    knob(&mut f.move_inscriptions);
    knob(&mut f.zero_value_input);
    knob(&mut f.etchings);
    knob(&mut f.mints);
    knob(&mut f.edicts);
    knob(&mut f.cenotaphs);
    knob(&mut f.move_runes);
    knob(&mut f.raw_garbage);
    f
  }
}

pub fn sats_features() -> Features {
  Features {
    fee_free: 30,
    big_fee: 15,
    same_block_spend: 30,
    multi_input: 40,
    multi_output: 50,
    zero_value_output: 15,
    op_return_output: 15,
    odd_scripts: 15,
    pool_scripts: 30,
    coinbase_multi: 30,
    coinbase_under: 20,
    coinbase_dup: 8,
    txs_per_block: (0, 4),
    ..Features::none()
  }
}

pub fn inscription_features() -> Features {
  Features {
    envelopes: 55,
    env_flaws: 25,
    pointers: 25,
    parents: 30,
    delegates: 10,
    move_inscriptions: 45,
    zero_value_input: 10,
    coinbase_dup: 0,
    ..sats_features()
  }
}

pub fn rune_features() -> Features {
  Features {
    runestones: 60,
    etchings: 40,
    mints: 50,
    edicts: 50,
    cenotaphs: 8,
    move_runes: 60,
    raw_garbage: 3,
    coinbase_dup: 0,
    odd_scripts: 5,
    pool_scripts: 10,
    op_return_output: 10,
    ..sats_features()
  }
}

pub fn everything_features() -> Features {
  Features {
    runestones: 35,
    etchings: 40,
    mints: 40,
    edicts: 50,
    cenotaphs: 15,
    move_runes: 40,
    raw_garbage: 5,
    ..inscription_features()
  }
}

fn pct(rng: &mut Rng, p: u32) -> bool {
  p > 0 && rng.below(100) < u64::from(p)
}

pub fn gen_script(rng: &mut Rng, f: &Features) -> ScriptSpec {
  if pct(rng, f.pool_scripts) {
    return ScriptSpec::Pool(rng.below(4) as u8);
  }
  if pct(rng, f.odd_scripts) {
    return match rng.below(3) {
      0 => ScriptSpec::Empty,
      1 => ScriptSpec::Raw(rng.bytes(1 + rng.clone().usize(8))),
      _ => ScriptSpec::Raw(vec![0x51]),
    };
  }
  if rng.chance(2, 3) {
    ScriptSpec::P2tr(rng.below(12) as u16)
  } else {
    ScriptSpec::P2wpkh(rng.below(12) as u16)
  }
}

fn gen_outputs(rng: &mut Rng, f: &Features) -> Vec<OutSpec> {
  let n = if pct(rng, f.multi_output) {
    2 + rng.usize(4)
  } else {
    1
  };
  let mut outs = Vec::new();
  for _ in 0..n {
    if pct(rng, f.op_return_output) {
      outs.push(OutSpec {
        weight: if rng.chance(1, 3) { 1 } else { 0 },
        exact: None,
        script: ScriptSpec::OpReturn(rng.bytes(rng.clone().usize(6))),
      });
      continue;
    }
    let zero = pct(rng, f.zero_value_output);
    let exact = if !zero && rng.chance(1, 5) {
      Some(*rng.pick(&[1u64, 330, 546, 1000, 10_000, 100_000_000]))
    } else {
      None
    };
    outs.push(OutSpec {
      weight: if zero { 0 } else { 1 + rng.below(5) as u32 },
      exact,
      script: gen_script(rng, f),
    });
  }
  outs
}

fn gen_id_ref(rng: &mut Rng) -> IdRef {
  match rng.below(10) {
    0..=2 => IdRef::Known(rng.below(64) as u32),
    // an inscription the transaction really spends: accepted parents, and
    // with several of them children of more than one collection
    3..=5 => IdRef::Carried(rng.below(8) as u32),
    6 => IdRef::KnownTxIndex(rng.below(64) as u32, rng.below(4) as u32),
    7 => IdRef::Missing(rng.below(1000) as u32),
    8 => IdRef::RawBytes(rng.bytes(rng.clone().usize(40))),
    9 => IdRef::Own(rng.below(4) as u32),
    _ => IdRef::Known(0),
  }
}

pub fn gen_envelope(rng: &mut Rng, f: &Features) -> EnvSpec {
  let mut e = EnvSpec::default();
  if rng.chance(4, 5) {
    e.content_type = Some(
      rng
        .pick(&[
          &b"text/plain;charset=utf-8"[..],
          b"image/png",
          b"text/html",
          b"application/json",
          b"\xff\xfe",
          b"",
        ])
        .to_vec(),
    );
  }
  if rng.chance(4, 5) {
    let n = *rng.pick(&[0usize, 1, 5, 40, 600]);
    e.body = Some(rng.bytes(n));
  }
  if rng.chance(1, 10) {
    e.content_encoding = Some(rng.pick(&[&b"br"[..], b"gzip", b"\xff"]).to_vec());
  }
  if rng.chance(1, 10) {
    e.metaprotocol = Some(b"brc-20".to_vec());
  }
  if rng.chance(1, 10) {
    e.metadata = Some(rng.bytes(rng.clone().usize(30)));
  }
  if pct(rng, f.pointers) {
    match rng.below(8) {
      0 => e.pointer = Some(rng.bytes(rng.clone().usize(11))),
      1 => e.pointer = Some(ord::Inscription::pointer_value(rng.below(5_000_000_000))),
      // the first sat of some input: lands exactly where that input's own
      // inscriptions (old and new) are
      2..=4 => e.pointer_input = Some(rng.below(4) as u32),
      // a few round positions, so that two pointers coincide
      5 => e.pointer_permille = Some(*rng.pick(&[0u32, 250, 500, 750])),
      _ => e.pointer_permille = Some(rng.below(1300) as u32),
    }
  }
  if pct(rng, f.parents) {
    for _ in 0..1 + rng.usize(3) {
      e.parents.push(gen_id_ref(rng));
    }
    if rng.chance(1, 4) && !e.parents.is_empty() {
      let dup = e.parents[0].clone();
      e.parents.push(dup);
    }
  }
  if pct(rng, f.delegates) {
    e.delegate = Some(gen_id_ref(rng));
  }
  if pct(rng, f.env_flaws) {
    match rng.below(6) {
      0 => e.duplicate_field = true,
      1 => e.incomplete_field = true,
      2 => e.unknown_tag = Some(*rng.pick(&[4u8, 66, 100, 254])),
      3 => e.unknown_tag = Some(*rng.pick(&[21u8, 15, 255])),
      4 => e.pushnum = true,
      _ => e.stutter = true,
    }
  }
  e
}

fn amount(rng: &mut Rng) -> String {
  match rng.below(8) {
    0 => "0".into(),
    1 => "1".into(),
    2 => rng.below(1000).to_string(),
    3 => rng.below(1_000_000_000).to_string(),
    4 => u128::MAX.to_string(),
    5 => (u128::MAX / 2).to_string(),
    _ => rng.below(100_000).to_string(),
  }
}

fn gen_rune_id(rng: &mut Rng) -> RuneIdRef {
  match rng.below(16) {
    14 => RuneIdRef::ThisBlock(0),
    15 => RuneIdRef::ThisBlock(rng.below(3) as u32),
    0..=4 => RuneIdRef::Held(rng.below(16) as u32),
    5..=8 => RuneIdRef::Known(rng.below(16) as u32),
    9..=10 => RuneIdRef::Zero,
    11..=12 => RuneIdRef::Raw(rng.below(200), rng.below(6) as u32),
    _ => RuneIdRef::Raw(rng.next_u64(), rng.next_u64() as u32),
  }
}

fn gen_terms(rng: &mut Rng) -> TermsSpec {
  let mut t = TermsSpec {
    relative_to_tip: true,
    ..Default::default()
  };
  if rng.chance(3, 5) {
    // generous terms: mints mostly succeed until the cap
    t.amount = Some((1 + rng.below(1000)).to_string());
    t.cap = Some((1 + rng.below(5)).to_string());
    if rng.chance(1, 3) {
      t.height_end = Some(2 + rng.below(10));
    }
    if rng.chance(1, 4) {
      t.offset_start = Some(rng.below(3));
    }
    return t;
  }
  if rng.chance(5, 6) {
    t.amount = Some(match rng.below(4) {
      0 => "0".into(),
      1 => "1".into(),
      _ => (1 + rng.below(1000)).to_string(),
    });
  }
  if rng.chance(5, 6) {
    t.cap = Some(match rng.below(5) {
      0 => "0".into(),
      1 => "1".into(),
      2 => "2".into(),
      3 => (1 + rng.below(6)).to_string(),
      _ => "1000000".into(),
    });
  }
  if rng.chance(1, 3) {
    t.height_start = Some(rng.below(6));
  }
  if rng.chance(1, 3) {
    t.height_end = Some(1 + rng.below(8));
  }
  if rng.chance(1, 3) {
    t.offset_start = Some(match rng.below(5) {
      0 => u64::MAX,
      1 => u64::MAX - 3,
      _ => rng.below(5),
    });
  }
  if rng.chance(1, 3) {
    t.offset_end = Some(match rng.below(5) {
      0 => u64::MAX,
      _ => 1 + rng.below(8),
    });
  }
  t
}

fn gen_runestone(rng: &mut Rng, f: &Features, wants_commit: &mut bool, n_out: u32) -> RunestoneSpec {
  if pct(rng, f.raw_garbage) {
    return match rng.below(2) {
      0 => RunestoneSpec::RawPayload(rng.bytes(rng.clone().usize(30))),
      _ => RunestoneSpec::Integers(
        (0..rng.clone().usize(12))
          .map(|_| match rng.below(4) {
            0 => rng.below(30).to_string(),
            1 => u128::MAX.to_string(),
            _ => rng.below(1 << 20).to_string(),
          })
          .collect(),
      ),
    };
  }
  if pct(rng, f.cenotaphs) {
    // a structurally valid message with one deliberate flaw
    return match rng.below(5) {
      // unrecognised even tag
      0 => RunestoneSpec::Integers(vec!["126".into(), "1".into()]),
      // unrecognised flag
      1 => RunestoneSpec::Integers(vec!["2".into(), (1u128 << 60).to_string()]),
      // etching flag + rune name, then an unrecognised even tag: cenotaph etching
      2 => RunestoneSpec::Integers(vec![
        "2".into(),
        "1".into(),
        "4".into(),
        ((1u128 << 91) + u128::from(rng.below(1 << 20))).to_string(),
        "126".into(),
        "0".into(),
      ]),
      // mint + trailing truncated edict
      3 => RunestoneSpec::Integers(vec![
        "20".into(),
        rng.below(60).to_string(),
        "20".into(),
        "1".into(),
        "0".into(),
        "1".into(),
        "2".into(),
      ]),
      // edict output out of range
      _ => RunestoneSpec::Structured {
        edicts: vec![EdictSpec {
          id: gen_rune_id(rng),
          amount: amount(rng),
          output: Some(50),
        }],
        etching: None,
        mint: if rng.chance(1, 2) {
          Some(gen_rune_id(rng))
        } else {
          None
        },
        pointer: None,
      },
    };
  }
  let etching = if pct(rng, f.etchings) {
    let name = match rng.below(12) {
      0 => RuneName::None,
      1 => RuneName::AtMinimum(-(rng.below(3) as i64) - 1),
      2 => RuneName::AtMinimum(rng.below(3) as i64),
      3 => RuneName::Duplicate(rng.below(8) as u32),
      4 => RuneName::Reserved(rng.below(100) as u32),
      _ => RuneName::Fresh(rng.below(1 << 20) as u32),
    };
    *wants_commit = !matches!(name, RuneName::None);
    Some(EtchingSpec {
      name,
      divisibility: if rng.chance(1, 2) {
        Some(rng.below(39) as u8)
      } else {
        None
      },
      premine: if rng.chance(2, 3) {
        Some(amount(rng))
      } else {
        None
      },
      spacers: if rng.chance(1, 3) {
        Some(rng.below(64) as u32)
      } else {
        None
      },
      symbol: if rng.chance(1, 3) { Some('$') } else { None },
      terms: if rng.chance(2, 3) {
        Some(gen_terms(rng))
      } else {
        None
      },
      turbo: rng.chance(1, 4),
    })
  } else {
    None
  };
  let mint = if pct(rng, f.mints) {
    Some(gen_rune_id(rng))
  } else {
    None
  };
  let mut edicts = Vec::new();
  if pct(rng, f.edicts) {
    for _ in 0..1 + rng.usize(4) {
      let output = match rng.below(12) {
        0..=2 => None,
        // out of range: cenotaph
        3 => Some(n_out + 1 + rng.below(3) as u32),
        _ => Some(rng.below(n_out.into()) as u32),
      };
      edicts.push(EdictSpec {
        id: if etching.is_some() && rng.chance(1, 2) {
          RuneIdRef::Zero
        } else {
          gen_rune_id(rng)
        },
        // a split with amount zero divides the balance, remainder first
        amount: if output.is_none() && rng.chance(1, 2) {
          "0".into()
        } else {
          amount(rng)
        },
        output,
      });
    }
  }
  let pointer = match rng.below(12) {
    0..=2 => Some(rng.below(n_out.into()) as u32),
    // out of range: cenotaph
    3 => Some(n_out + rng.below(3) as u32),
    _ => None,
  };
  RunestoneSpec::Structured {
    edicts,
    etching,
    mint,
    pointer,
  }
}

pub fn gen_tx(rng: &mut Rng, f: &Features) -> TxSpec {
  let n_inputs = if pct(rng, f.multi_input) {
    2 + rng.usize(3)
  } else {
    1
  };
  let mut wants_commit = false;
  let outputs = gen_outputs(rng, f);
  let runestone = if pct(rng, f.runestones) {
    Some(gen_runestone(rng, f, &mut wants_commit, outputs.len() as u32 + 1))
  } else {
    None
  };
  let mut inputs = Vec::new();
  for i in 0..n_inputs {
    let k = rng.below(1 << 16) as u32;
    let mut sel = if f.coinbase_dup > 0 && rng.chance(1, 4) {
      // spend the latest copy of a duplicated coinbase soon after it appears
      InputSel::Duplicated(k)
    } else if pct(rng, f.same_block_spend) {
      InputSel::SameBlock(k)
    } else if pct(rng, f.move_inscriptions) {
      InputSel::Inscribed(k)
    } else if pct(rng, f.move_runes) {
      InputSel::Runic(k)
    } else if pct(rng, f.zero_value_input) {
      InputSel::ZeroValue(k)
    } else {
      InputSel::Utxo(k)
    };
    let mut witness = WitnessSpec::None;
    if pct(rng, f.envelopes) {
      let n = match rng.below(10) {
        0..=6 => 1,
        7 | 8 => 2,
        _ => 3,
      };
      witness = WitnessSpec::Envelopes((0..n).map(|_| gen_envelope(rng, f)).collect());
    }
    if wants_commit && i == 0 {
      let min_conf = match rng.below(10) {
        0 => 1 + rng.below(5) as u32,
        _ => 6,
      };
      if rng.chance(9, 10) {
        sel = if rng.chance(1, 6) {
          InputSel::TaprootShallow { sel: k, max_conf: 5 }
        } else {
          InputSel::Taproot { sel: k, min_conf }
        };
      }
      witness = match witness {
        WitnessSpec::Envelopes(envs) if rng.chance(1, 2) => {
          WitnessSpec::CommitAndEnvelopes(Vec::new(), envs)
        }
        _ => {
          if rng.chance(14, 15) {
            WitnessSpec::Commit(Vec::new())
          } else {
            WitnessSpec::Commit(rng.bytes(5))
          }
        }
      };
    }
    if wants_commit && i == 1 && rng.chance(1, 3) {
      // a second input revealing the same commitment, of different maturity
      sel = if rng.chance(1, 2) {
        InputSel::Taproot { sel: k, min_conf: 6 }
      } else {
        InputSel::TaprootShallow { sel: k, max_conf: 5 }
      };
      witness = WitnessSpec::Commit(Vec::new());
    }
    if pct(rng, f.raw_garbage) {
      witness = match rng.below(2) {
        0 => WitnessSpec::RawScript(rng.bytes(rng.clone().usize(60))),
        _ => WitnessSpec::RawStack(
          (0..rng.clone().usize(4))
            .map(|_| hex::encode(rng.bytes(rng.clone().usize(40))))
            .collect(),
        ),
      };
    }
    inputs.push(InSpec { sel, witness });
  }
  let (fee_permille, fee_exact) = if pct(rng, f.fee_free) {
    (0, Some(0))
  } else if pct(rng, f.big_fee) {
    (*rng.pick(&[500u32, 900, 1000]), None)
  } else {
    match rng.below(3) {
      0 => (0, Some(*rng.pick(&[1u64, 100, 1000, 12_345]))),
      _ => (1 + rng.below(60) as u32, None),
    }
  };
  TxSpec {
    inputs,
    outputs,
    fee_permille,
    fee_exact,
    runestone,
    runestone_at: rng.below(6) as u32,
    runestone_value: if rng.chance(1, 8) { 546 } else { 0 },
  }
}

pub fn gen_coinbase(rng: &mut Rng, f: &Features) -> CoinbaseSpec {
  let n = if pct(rng, f.coinbase_multi) {
    2 + rng.usize(4)
  } else {
    1
  };
  let outputs = (0..n)
    .map(|_| OutSpec {
      weight: if rng.chance(1, 8) {
        0
      } else {
        1 + rng.below(4) as u32
      },
      exact: None,
      script: gen_script(rng, f),
    })
    .collect();
  let claim = if pct(rng, f.coinbase_under) {
    match rng.below(5) {
      0 => Claim::Nothing,
      1 => Claim::Under(1),
      2 => Claim::Under(5_000_000_000),
      _ => Claim::Under(rng.below(6_000_000_000)),
    }
  } else {
    Claim::Full
  };
  CoinbaseSpec {
    outputs,
    claim,
    duplicate_of: if pct(rng, f.coinbase_dup) {
      Some(rng.below(1 << 16) as u32)
    } else {
      None
    },
  }
}

pub fn gen_block(rng: &mut Rng, f: &Features) -> BlockSpec {
  let n = rng.range(f.txs_per_block.0.into(), f.txs_per_block.1.into()) as usize;
  BlockSpec {
    txs: (0..n).map(|_| gen_tx(rng, f)).collect(),
    coinbase: gen_coinbase(rng, f),
    include_mempool: false,
    mempool_limit: None,
  }
}

/// Schedules and faults under which neither the result nor the success of an
/// update may change (DESIGN §7 "transparent faults").
pub fn gen_transparent_update(rng: &mut Rng, fetch_path: bool) -> UpdateSpec {
  let mut u = UpdateSpec {
    lag: match rng.below(4) {
      0 => 0,
      1 => 31,
      _ => rng.below(32) as u32,
    },
    ..Default::default()
  };
  if fetch_path {
    u.batch_cuts = match rng.below(4) {
      0 => vec![],
      1 => vec![1],
      _ => (0..1 + rng.usize(3)).map(|_| 1 + rng.below(5) as u32).collect(),
    };
    u.batch_reorder = rng.chance(1, 2);
    if rng.chance(1, 4) {
      u.rpc_faults.push(RpcFault {
        client: ClientKind::T,
        nth: rng.below(6) as u32,
        times: 1 + rng.below(4) as u32,
        kind: RpcFaultKind::Transport,
      });
    }
  }
  if rng.chance(1, 4) {
    u.rpc_faults.push(RpcFault {
      client: ClientKind::F,
      nth: rng.below(40) as u32,
      times: 1 + rng.below(3) as u32,
      kind: *rng.pick(&[
        RpcFaultKind::Warmup,
        RpcFaultKind::Transport,
        RpcFaultKind::Http500,
      ]),
    });
  }
  u
}

#[derive(Clone, Debug)]
pub struct ChainPlan {
  pub blocks: Vec<BlockSpec>,
}

pub fn gen_chain(rng: &mut Rng, f: &Features, n: usize) -> Vec<BlockSpec> {
  (0..n).map(|_| gen_block(rng, f)).collect()
}

/// Cut `blocks` into Mine/Update steps with a transparent schedule.
pub fn schedule_ops(
  rng: &mut Rng,
  blocks: Vec<BlockSpec>,
  fetch_path: bool,
  every_height: bool,
  allow_reopen: bool,
) -> Vec<Op> {
  let mut ops = Vec::new();
  let mut rest = blocks.as_slice();
  let mut mined = 1u32; // genesis
  while !rest.is_empty() {
    let k = if every_height {
      1
    } else {
      (1 + rng.usize(rest.len().min(12))).min(rest.len())
    };
    let (now, later) = rest.split_at(k);
    rest = later;
    ops.push(Op::Mine(now.to_vec()));
    mined += k as u32;
    if !every_height && rng.chance(1, 4) && k > 1 {
      // index only a prefix of what is mined, the rest next time
      let mut u = gen_transparent_update(rng, fetch_path);
      u.height_limit = Some(mined - rng.below(k as u64) as u32);
      ops.push(Op::Update(u));
    }
    ops.push(Op::Update(gen_transparent_update(rng, fetch_path)));
    if allow_reopen && rng.chance(1, 5) {
      ops.push(Op::Reopen);
    }
  }
  ops
}

pub fn gen_config(rng: &mut Rng) -> Config {
  Config {
    chain: ChainKind::Regtest,
    index_sats: true,
    index_addresses: rng.chance(1, 2),
    index_transactions: rng.chance(1, 3),
    index_runes: rng.chance(1, 2),
    no_index_inscriptions: false,
    commit_interval: match rng.below(4) {
      0 => 1,
      1 => 5000,
      _ => 1 + rng.below(9) as u32,
    },
    savepoint_interval: match rng.below(3) {
      0 => 10,
      _ => 1 + rng.below(12) as u32,
    },
    max_savepoints: 1 + rng.below(3) as u32,
    index_cache_size: *rng.pick(&[1u64 << 16, 1 << 20, 1 << 24]),
    bitcoin_rpc_limit: 1 + rng.below(12) as u32,
    integration_test: rng.chance(1, 3),
    events: false,
    first_inscription_height: None,
  }
}
