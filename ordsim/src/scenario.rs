//! The operation language: what a replay file contains.
//!
//! Everything that picks "one of the currently existing things" is a selector
//! reduced modulo the size of the live set at execution time, so every list of
//! ops is executable and the shrinker may delete and simplify freely.

use {
  crate::disk::Recovery,
  serde::{Deserialize, Serialize},
};

pub mod hexbytes {
  use serde::{Deserialize, Deserializer, Serializer};
  pub fn serialize<S: Serializer>(v: &Vec<u8>, s: S) -> Result<S::Ok, S::Error> {
    s.serialize_str(&hex::encode(v))
  }
  pub fn deserialize<'de, D: Deserializer<'de>>(d: D) -> Result<Vec<u8>, D::Error> {
    let s = String::deserialize(d)?;
    hex::decode(s).map_err(serde::de::Error::custom)
  }
}

pub mod hexbytes_opt {
  use serde::{Deserialize, Deserializer, Serializer};
  pub fn serialize<S: Serializer>(v: &Option<Vec<u8>>, s: S) -> Result<S::Ok, S::Error> {
    match v {
      Some(v) => s.serialize_some(&hex::encode(v)),
      None => s.serialize_none(),
    }
  }
  pub fn deserialize<'de, D: Deserializer<'de>>(d: D) -> Result<Option<Vec<u8>>, D::Error> {
    let s = Option::<String>::deserialize(d)?;
    s.map(|s| hex::decode(s).map_err(serde::de::Error::custom))
      .transpose()
  }
}

#[derive(Clone, Copy, Debug, PartialEq, Eq, Serialize, Deserialize, Hash)]
pub enum ChainKind {
  Regtest,
  Testnet4,
  Signet,
  Mainnet,
}

impl ChainKind {
  pub fn ord(self) -> ord::Chain {
    match self {
      Self::Regtest => ord::Chain::Regtest,
      Self::Testnet4 => ord::Chain::Testnet4,
      Self::Signet => ord::Chain::Signet,
      Self::Mainnet => ord::Chain::Mainnet,
    }
  }

  pub fn flag(self) -> &'static str {
    match self {
      Self::Regtest => "--regtest",
      Self::Testnet4 => "--testnet4",
      Self::Signet => "--signet",
      Self::Mainnet => "--chain=mainnet",
    }
  }

  pub fn rpc_name(self) -> &'static str {
    match self {
      Self::Regtest => "regtest",
      Self::Testnet4 => "testnet4",
      Self::Signet => "signet",
      Self::Mainnet => "main",
    }
  }
}

#[derive(Clone, Debug, PartialEq, Eq, Serialize, Deserialize)]
pub struct Config {
  pub chain: ChainKind,
  pub index_sats: bool,
  pub index_addresses: bool,
  pub index_transactions: bool,
  pub index_runes: bool,
  pub no_index_inscriptions: bool,
  pub commit_interval: u32,
  pub savepoint_interval: u32,
  pub max_savepoints: u32,
  pub index_cache_size: u64,
  pub bitcoin_rpc_limit: u32,
  pub integration_test: bool,
  /// attach an event receiver
  pub events: bool,
  /// simulation knob: activation height of inscriptions (None = the chain's own)
  #[serde(default)]
  pub first_inscription_height: Option<u32>,
}

impl Default for Config {
  fn default() -> Self {
    Self {
      chain: ChainKind::Regtest,
      index_sats: true,
      index_addresses: true,
      index_transactions: false,
      index_runes: true,
      no_index_inscriptions: false,
      commit_interval: 5000,
      savepoint_interval: 10,
      max_savepoints: 2,
      index_cache_size: 1 << 24,
      bitcoin_rpc_limit: 12,
      integration_test: false,
      events: false,
      first_inscription_height: None,
    }
  }
}

// ---------------------------------------------------------------- transactions

#[derive(Clone, Debug, PartialEq, Eq, Serialize, Deserialize)]
pub enum ScriptSpec {
  /// pay-to-taproot with a key derived from the number
  P2tr(u16),
  /// pay-to-witness-pubkey-hash derived from the number
  P2wpkh(u16),
  /// one of a small pool of scripts reused across outputs
  Pool(u8),
  /// k-th pre-registered script of simulated wallet w (0 = "ord", 1 = "buyer")
  Wallet(u8, u16),
  Empty,
  /// OP_RETURN followed by a push of these bytes (no push if empty)
  OpReturn(#[serde(with = "hexbytes")] Vec<u8>),
  /// arbitrary script bytes
  Raw(#[serde(with = "hexbytes")] Vec<u8>),
}

#[derive(Clone, Debug, PartialEq, Eq, Serialize, Deserialize)]
pub struct OutSpec {
  /// share of the distributable value (after fee and exact outputs)
  pub weight: u32,
  /// exact value in sats instead of a share (clamped to what is available)
  pub exact: Option<u64>,
  pub script: ScriptSpec,
}

#[derive(Clone, Debug, PartialEq, Eq, Serialize, Deserialize)]
pub enum InputSel {
  /// k-th unspent output on the current branch, creation order, modulo
  Utxo(u32),
  /// the output currently holding the k-th live inscription (model), else Utxo(k)
  Inscribed(u32),
  /// the k-th output currently holding runes (model), else Utxo(k)
  Runic(u32),
  /// k-th unspent output created in the block being built, else Utxo(k)
  SameBlock(u32),
  /// k-th unspent pay-to-taproot output at least `min_conf` blocks deep, else Utxo(k)
  Taproot { sel: u32, min_conf: u32 },
  /// k-th unspent zero-value output, else Utxo(k)
  ZeroValue(u32),
  /// k-th unspent pay-to-taproot output at most `max_conf` blocks deep, else Utxo(k)
  TaprootShallow { sel: u32, max_conf: u32 },
  /// k-th unspent output of a coinbase whose txid occurs more than once on
  /// this branch (the latest copy), else Utxo(k)
  Duplicated(u32),
}

#[derive(Clone, Debug, PartialEq, Eq, Serialize, Deserialize)]
pub enum IdRef {
  /// k-th inscription id known on this branch (modulo), if any
  Known(u32),
  /// id `<this txid>i<index>` — only resolvable after the txid is fixed, so it
  /// is encoded as the txid of the k-th known id with this index (forgery)
  KnownTxIndex(u32, u32),
  /// an id that does not exist
  Missing(u32),
  /// `<txid of the transaction that carries the envelope>i<index>`: the txid
  /// does not commit to the witness, so an envelope can name itself, a later
  /// or an earlier inscription of its own transaction
  Own(u32),
  /// k-th inscription (modulo) that sits on an output this transaction spends,
  /// i.e. one the reveal really carries; `Known(k)` when there is none
  Carried(u32),
  #[serde(with = "hexbytes")]
  RawBytes(Vec<u8>),
}

#[derive(Clone, Debug, Default, PartialEq, Eq, Serialize, Deserialize)]
pub struct EnvSpec {
  #[serde(with = "hexbytes_opt")]
  pub content_type: Option<Vec<u8>>,
  #[serde(with = "hexbytes_opt")]
  pub content_encoding: Option<Vec<u8>>,
  #[serde(with = "hexbytes_opt")]
  pub body: Option<Vec<u8>>,
  #[serde(with = "hexbytes_opt")]
  pub metaprotocol: Option<Vec<u8>>,
  #[serde(with = "hexbytes_opt")]
  pub metadata: Option<Vec<u8>>,
  /// pointer as raw little-endian bytes (may be overlong / > 8 bytes)
  #[serde(with = "hexbytes_opt")]
  pub pointer: Option<Vec<u8>>,
  /// pointer relative to the transaction: per-mille of total output value
  pub pointer_permille: Option<u32>,
  /// pointer to the first sat of the k-th input (modulo the input count)
  #[serde(default)]
  pub pointer_input: Option<u32>,
  pub parents: Vec<IdRef>,
  pub delegate: Option<IdRef>,
  /// rune commitment tag contents
  #[serde(with = "hexbytes_opt")]
  pub rune: Option<Vec<u8>>,
  /// gallery property items (ids), encoded with ord's own encoder
  pub gallery: Vec<IdRef>,
  pub duplicate_field: bool,
  pub incomplete_field: bool,
  /// an unrecognised tag: even ones make the inscription unbound
  pub unknown_tag: Option<u8>,
  /// encode the content-type tag with OP_PUSHNUM_1
  pub pushnum: bool,
  pub stutter: bool,
}

#[derive(Clone, Debug, PartialEq, Eq, Serialize, Deserialize)]
pub enum WitnessSpec {
  None,
  /// tapscript with these envelopes, in order
  Envelopes(Vec<EnvSpec>),
  /// tapscript with a bare push of these bytes (rune commitment)
  Commit(#[serde(with = "hexbytes")] Vec<u8>),
  /// commitment push followed by envelopes
  CommitAndEnvelopes(#[serde(with = "hexbytes")] Vec<u8>, Vec<EnvSpec>),
  /// arbitrary tapscript bytes
  RawScript(#[serde(with = "hexbytes")] Vec<u8>),
  /// arbitrary witness stack
  RawStack(Vec<String>),
}

#[derive(Clone, Debug, PartialEq, Eq, Serialize, Deserialize)]
pub struct InSpec {
  pub sel: InputSel,
  pub witness: WitnessSpec,
}

#[derive(Clone, Debug, PartialEq, Eq, Serialize, Deserialize)]
pub enum RuneIdRef {
  /// k-th rune etched on this branch (model), modulo; 0:0 if none
  Known(u32),
  /// the rune etched by this very transaction (0:0)
  Zero,
  Raw(u64, u32),
  /// k-th rune carried by the inputs of this transaction (model), else Known(k)
  Held(u32),
  /// `<height of the block being built>:<index of this transaction + delta>`:
  /// the id the rune etched by this transaction (delta 0) or by a later one
  /// in the same block will have
  ThisBlock(u32),
}

#[derive(Clone, Debug, PartialEq, Eq, Serialize, Deserialize)]
pub struct EdictSpec {
  pub id: RuneIdRef,
  /// decimal string (u128)
  pub amount: String,
  /// output index; `None` = number of outputs (split); values beyond the
  /// output count produce a cenotaph
  pub output: Option<u32>,
}

#[derive(Clone, Debug, Default, PartialEq, Eq, Serialize, Deserialize)]
pub struct TermsSpec {
  pub amount: Option<String>,
  pub cap: Option<String>,
  pub height_start: Option<u64>,
  pub height_end: Option<u64>,
  pub offset_start: Option<u64>,
  pub offset_end: Option<u64>,
  /// heights are relative to the block being built
  pub relative_to_tip: bool,
}

#[derive(Clone, Debug, PartialEq, Eq, Serialize, Deserialize)]
pub enum RuneName {
  None,
  /// minimum at the block being built plus/minus a delta
  AtMinimum(i64),
  /// explicit value (decimal u128)
  Value(String),
  /// name of the k-th known rune (duplicate)
  Duplicate(u32),
  /// a reserved name
  Reserved(u32),
  /// a name certainly above the minimum, unique per number
  Fresh(u32),
}

#[derive(Clone, Debug, PartialEq, Eq, Serialize, Deserialize)]
pub struct EtchingSpec {
  pub name: RuneName,
  pub divisibility: Option<u8>,
  pub premine: Option<String>,
  pub spacers: Option<u32>,
  pub symbol: Option<char>,
  pub terms: Option<TermsSpec>,
  pub turbo: bool,
}

#[derive(Clone, Debug, PartialEq, Eq, Serialize, Deserialize)]
pub enum RunestoneSpec {
  Structured {
    edicts: Vec<EdictSpec>,
    etching: Option<EtchingSpec>,
    mint: Option<RuneIdRef>,
    pointer: Option<u32>,
  },
  /// OP_RETURN OP_13 followed by pushes encoding these integers as varints
  Integers(Vec<String>),
  /// OP_RETURN OP_13 followed by these raw script bytes
  RawPayload(#[serde(with = "hexbytes")] Vec<u8>),
}

#[derive(Clone, Debug, PartialEq, Eq, Serialize, Deserialize)]
pub struct TxSpec {
  pub inputs: Vec<InSpec>,
  pub outputs: Vec<OutSpec>,
  /// fee in per-mille of the input value (clamped); `fee_exact` wins if set
  pub fee_permille: u32,
  pub fee_exact: Option<u64>,
  /// runestone output; inserted at `runestone_at` (modulo outputs+1)
  pub runestone: Option<RunestoneSpec>,
  pub runestone_at: u32,
  /// value carried by the runestone output
  pub runestone_value: u64,
}

#[derive(Clone, Debug, PartialEq, Eq, Serialize, Deserialize)]
pub enum Claim {
  Full,
  /// leave this many sats unclaimed (clamped to the reward)
  Under(u64),
  /// claim nothing: every output has value zero
  Nothing,
}

#[derive(Clone, Debug, PartialEq, Eq, Serialize, Deserialize)]
pub struct CoinbaseSpec {
  pub outputs: Vec<OutSpec>,
  pub claim: Claim,
  /// reuse the exact coinbase transaction of the k-th earlier block on this
  /// branch (duplicate txid) when its claim fits the reward
  pub duplicate_of: Option<u32>,
}

#[derive(Clone, Debug, PartialEq, Eq, Serialize, Deserialize)]
pub struct BlockSpec {
  pub txs: Vec<TxSpec>,
  pub coinbase: CoinbaseSpec,
  /// include the broadcast-but-unmined transactions first (tier 3)
  #[serde(default)]
  pub include_mempool: bool,
  /// with `include_mempool`: only the first n of them (the rest stay unmined)
  #[serde(default)]
  pub mempool_limit: Option<u32>,
}

// ---------------------------------------------------------------------- faults

#[derive(Clone, Copy, Debug, PartialEq, Eq, Serialize, Deserialize, Hash)]
pub enum ClientKind {
  /// the indexing thread's client
  M,
  /// the block prefetch thread's client
  F,
  /// the transaction fetcher
  T,
}

#[derive(Clone, Copy, Debug, PartialEq, Eq, Serialize, Deserialize)]
pub enum RpcFaultKind {
  /// JSON-RPC error -28 (warming up)
  Warmup,
  /// transport-level failure
  Transport,
  /// HTTP 500 style failure with a body
  Http500,
}

#[derive(Clone, Debug, PartialEq, Eq, Serialize, Deserialize)]
pub struct RpcFault {
  pub client: ClientKind,
  /// the n-th call (0-based) of that client during the update
  pub nth: u32,
  /// how many consecutive calls fail
  pub times: u32,
  pub kind: RpcFaultKind,
}

#[derive(Clone, Debug, PartialEq, Eq, Serialize, Deserialize)]
pub enum NodeEvent {
  Mine(Vec<BlockSpec>),
  Reorg { depth: u32, blocks: Vec<BlockSpec> },
}

#[derive(Clone, Debug, PartialEq, Eq, Serialize, Deserialize)]
pub struct PointEvent {
  /// name of an M-side point
  pub point: String,
  /// the n-th time (0-based) that point is reached during the update
  pub nth: u32,
  pub event: NodeEvent,
}

#[derive(Clone, Debug, PartialEq, Eq, Serialize, Deserialize)]
pub enum DiskFault {
  /// crash at the k-th mutating disk operation of the update (1-based)
  CrashAtOp { op: u64, recovery: Recovery },
  /// crash the n-th time the named point is reached
  CrashAtPoint {
    point: String,
    nth: u32,
    recovery: Recovery,
  },
  EioAtOp { op: u64 },
  Enospc { extra_bytes: u64 },
}

#[derive(Clone, Debug, Default, PartialEq, Eq, Serialize, Deserialize)]
pub struct UpdateSpec {
  pub height_limit: Option<u32>,
  /// how many blocks the prefetch thread may run ahead (0..=31)
  pub lag: u32,
  /// batch gate: cut after this many outpoints sent (cyclic list); empty = one
  /// batch per block
  pub batch_cuts: Vec<u32>,
  pub batch_reorder: bool,
  pub rpc_faults: Vec<RpcFault>,
  pub node_events: Vec<PointEvent>,
  pub disk_fault: Option<DiskFault>,
  /// another caller of `Index::update` wins the write lock right after the
  /// n-th mid-batch commit of this update (before its next `begin_write`) and
  /// runs to completion
  #[serde(default)]
  pub competing_update: Option<u32>,
}

#[derive(Clone, Debug, PartialEq, Eq, Serialize, Deserialize)]
pub enum AmountSel {
  /// base units, decimal string
  Exact(String),
  /// per-mille of the wallet's balance of that rune
  Permille(u32),
  Zero,
  /// the whole wallet balance
  Full,
  /// more than the wallet has
  FullPlus(u32),
  /// exactly what the first (by outpoint) uninscribed wallet output holding
  /// the rune holds: consumes that input without a remainder
  FirstHolder,
}

#[derive(Clone, Debug, PartialEq, Eq, Serialize, Deserialize)]
pub struct SplitOut {
  pub to: u16,
  pub value: Option<u64>,
  pub runes: Vec<(u32, AmountSel)>,
}

/// One way in which a generated offer deviates from a valid one (C24).
#[derive(Clone, Debug, PartialEq, Eq, Serialize, Deserialize)]
pub enum OfferFlaw {
  /// a second wallet output among the inputs: a cardinal one
  ExtraWalletCardinal,
  /// … one that holds another inscription
  ExtraWalletInscribed,
  /// the wallet output holds two or more inscriptions
  SellerHoldsSeveral,
  /// the wallet output holds runes as well
  SellerHoldsRunes,
  /// the wallet output holds no inscription
  SellerCardinal,
  /// no wallet output at all
  NoWalletInput,
  /// `--amount` differs from what the wallet really receives
  AmountOff(i64),
  /// `--inscription` names another inscription of the wallet
  OtherInscription,
  /// the k-th foreign input is not signed
  BuyerUnsigned(u8),
  /// the wallet's input arrives already "signed"
  SellerPresigned,
  /// the payment goes to a foreign script (the wallet receives nothing)
  PaymentElsewhere,
}

/// What the node's signing replies do to the offer (C24).
#[derive(Clone, Copy, Debug, PartialEq, Eq, Serialize, Deserialize)]
pub enum SignFault {
  /// walletprocesspsbt replaces the signature of a foreign input
  AlterOnProcess,
  /// finalizepsbt returns a transaction with a changed foreign signature
  AlterOnFinalize,
  /// finalizepsbt moves a foreign witness signature into the script sig
  MoveToScriptSig,
  /// finalizepsbt returns a transaction with one more input
  ExtraInput,
  /// finalizepsbt returns a transaction with the last input dropped
  DropInput,
}

#[derive(Clone, Debug, PartialEq, Eq, Serialize, Deserialize)]
pub struct BatchEtching {
  pub name: u32,
  pub spacers: u32,
  pub divisibility: u8,
  /// base units
  pub premine: u64,
  /// (amount in base units, cap)
  pub terms: Option<(u64, u64)>,
  pub turbo: bool,
  /// the node mines a block every so many polls of the waiting wallet
  pub mine_every: u32,
}

#[derive(Clone, Debug, PartialEq, Eq, Serialize, Deserialize)]
pub enum BatchTarget {
  /// `sat: <first sat of the k-th cardinal wallet output>` (needs the sat index)
  Sat(u32),
  /// `satpoint: <k-th cardinal wallet output>:0`
  Satpoint(u32),
  /// `satpoint` of an inscribed wallet output with `reinscribe: true`
  Reinscribe(u32),
}

/// A wallet command, resolved against the chain state at execution time
/// (runes and recipients are selectors).
#[derive(Clone, Debug, PartialEq, Eq, Serialize, Deserialize)]
pub enum WalletCmd {
  SendBtc { sats: u64, to: u16, fee_rate: u32 },
  SendRune {
    rune: u32,
    amount: AmountSel,
    to: u16,
    fee_rate: u32,
    postage: Option<u64>,
  },
  BurnRune { rune: u32, amount: AmountSel, fee_rate: u32 },
  Mint { rune: u32, fee_rate: u32 },
  Split { outputs: Vec<SplitOut>, fee_rate: u32 },
  /// `wallet batch`: 0 separate-outputs, 1 shared-output, 2 same-sat, 3 satpoints
  Batch {
    /// an etching in the batch: the node mines while the wallet waits for the
    /// commitment to mature
    #[serde(default)]
    etching: Option<BatchEtching>,
    /// where to inscribe (same-sat: `sat` / `satpoint`; satpoints: one per entry)
    #[serde(default)]
    target: Option<BatchTarget>,
    mode: u8,
    count: u8,
    /// k-th inscriptions held by the wallet (modulo), as parents
    parents: Vec<u32>,
    postage: Option<u64>,
    /// pay the inscriptions to foreign addresses (separate-outputs only)
    foreign_destinations: bool,
    /// delegate to the k-th known inscription
    delegate: Option<u32>,
    metadata: bool,
    fee_rate: u32,
  },
  /// `wallet offer accept` of a PSBT presented by a counterparty
  Accept {
    /// which wallet output of the wanted class is offered (modulo)
    seller: u32,
    /// foreign inputs (selectors into the unspent outputs the wallet does not own)
    buyers: Vec<u32>,
    /// a foreign input signed in the script sig instead of the witness
    buyer_scriptsig: Option<u8>,
    /// position of the wallet input among the inputs (modulo)
    seller_pos: u8,
    price: u64,
    flaws: Vec<OfferFlaw>,
    sign_fault: Option<SignFault>,
    dry_run: bool,
    /// additional wallet inputs arrive with something in their signature field
    #[serde(default)]
    extra_signed: bool,
  },
}

#[derive(Clone, Debug, PartialEq, Eq, Serialize, Deserialize)]
pub enum Op {
  /// run a wallet command against the simulated node and the in-process explorer
  Wallet(WalletCmd),
  /// lock the k-th unspent output of the wallet on the node beforehand
  WalletLock(u32),
  Mine(Vec<BlockSpec>),
  Reorg { depth: u32, blocks: Vec<BlockSpec> },
  Update(UpdateSpec),
  /// clean close and reopen
  Reopen,
  /// run the enabled state oracles now (also run after every successful update)
  Check,
}

#[derive(Clone, Debug, PartialEq, Eq, Serialize, Deserialize)]
pub struct Scenario {
  pub seed: u64,
  pub profile: String,
  pub config: Config,
  pub ops: Vec<Op>,
  /// explorer options (tier 2)
  #[serde(default)]
  pub server: Option<crate::web::ServerOpts>,
}
