//! Tier 3: the wallet side of the simulated Bitcoin Core — descriptor wallets
//! with node-generated addresses, a mempool, locking, funding with
//! **adversarial coin selection**, fake signing, PSBT processing.
//!
//! Scripts and signatures are not validated (ord does not validate them
//! either); ownership is "the script was handed out by this wallet".

use {
  crate::{
    rng::Rng,
    world::{RpcError, World},
  },
  bitcoin::{
    Amount, OutPoint, Psbt, ScriptBuf, Sequence, Transaction, TxIn, TxOut, Txid, Witness,
    consensus::encode::{deserialize_hex, serialize_hex},
    hashes::{Hash, sha256},
  },
  serde_json::{Value, json},
  std::collections::{BTreeMap, BTreeSet},
};

pub const POOL: u32 = 64;

#[derive(Clone, Debug, Default)]
pub struct SimWallet {
  pub name: String,
  pub loaded: bool,
  /// scripts handed out by getnewaddress / getrawchangeaddress, plus the
  /// pre-registered pool the generator pays to
  pub scripts: BTreeSet<ScriptBuf>,
  pub next_address: u32,
  pub locked: BTreeSet<OutPoint>,
  pub descriptors: Vec<(String, bool)>,
  pub sent: Vec<Txid>,
}

#[derive(Clone, Debug, Default)]
pub struct WalletSide {
  pub wallets: BTreeMap<String, SimWallet>,
  /// broadcast and not yet mined, in arrival order
  pub mempool: Vec<Transaction>,
  /// everything ever accepted by sendrawtransaction, in order
  pub broadcasts: Vec<Transaction>,
  pub coin_selections: u64,
  pub adversarial_picks: u64,
  /// every transaction handed to sendrawtransaction, accepted or not
  pub send_attempts: Vec<Transaction>,
  /// every PSBT the wallet asked the node to sign (walletprocesspsbt, sign = true)
  pub sign_requests: Vec<Psbt>,
  /// what the signing replies do to the next offer (consumed by finalizepsbt)
  pub sign_fault: Option<crate::scenario::SignFault>,
  pub sign_faults_fired: u64,
  /// while a wallet command waits for confirmations: mine a block (with the
  /// mempool) every n-th `gettransaction` poll; (n, blocks left)
  pub mine_on_poll: Option<(u32, u32)>,
  pub polls: u64,
  pub blocks_mined_on_poll: u64,
  /// reveal keys handed out so far (the wallet's key entropy is a seam)
  pub entropy_draws: u64,
}

pub fn wallet_script(wallet: &str, k: u32) -> ScriptBuf {
  let mut data = b"wallet:".to_vec();
  data.extend_from_slice(wallet.as_bytes());
  data.extend_from_slice(&k.to_le_bytes());
  let h = sha256::Hash::hash(&data).to_byte_array();
  let mut b = vec![0x51, 0x20];
  b.extend_from_slice(&h);
  ScriptBuf::from_bytes(b)
}

fn err(code: i32, message: &str) -> RpcError {
  RpcError {
    code,
    message: message.into(),
  }
}

fn btc(sats: u64) -> Value {
  json!(Amount::from_sat(sats).to_btc())
}

impl World {
  pub fn create_wallet(&mut self, name: &str) {
    let mut w = SimWallet {
      name: name.into(),
      loaded: true,
      next_address: 1000,
      ..Default::default()
    };
    for k in 0..POOL {
      w.scripts.insert(wallet_script(name, k));
    }
    w.descriptors = vec![
      (format!("tr([00000000/86'/1'/0']tpub{name}/0/*)#aaaaaaaa"), false),
      (format!("tr([00000000/86'/1'/0']tpub{name}/1/*)#bbbbbbbb"), true),
    ];
    self.wallet_side.wallets.insert(name.into(), w);
  }

  fn address_string(&self, script: &ScriptBuf) -> Option<String> {
    bitcoin::Address::from_script(script, self.network).ok().map(|a| a.to_string())
  }

  /// Confirmed outputs plus outputs of mempool transactions, minus everything
  /// a mempool transaction spends.
  pub fn spendable_view(&self) -> BTreeMap<OutPoint, (TxOut, Option<u32>)> {
    let m = self.tip_model();
    let mut view: BTreeMap<OutPoint, (TxOut, Option<u32>)> = m
      .utxos
      .iter()
      .filter(|(_, u)| !u.script.is_op_return())
      .map(|(o, u)| {
        (
          *o,
          (
            TxOut {
              value: Amount::from_sat(u.value),
              script_pubkey: u.script.clone(),
            },
            Some(u.height),
          ),
        )
      })
      .collect();
    for tx in &self.wallet_side.mempool {
      for i in &tx.input {
        view.remove(&i.previous_output);
      }
      let txid = tx.compute_txid();
      for (vout, o) in tx.output.iter().enumerate() {
        if !o.script_pubkey.is_op_return() {
          view.insert(
            OutPoint {
              txid,
              vout: vout as u32,
            },
            (o.clone(), None),
          );
        }
      }
    }
    view
  }

  fn new_address(&mut self, wallet: &str) -> ScriptBuf {
    let w = self.wallet_side.wallets.get_mut(wallet).unwrap();
    let script = wallet_script(wallet, w.next_address);
    w.next_address += 1;
    w.scripts.insert(script.clone());
    script
  }

  fn fake_witness(outpoint: &OutPoint) -> Witness {
    let mut sig = sha256::Hash::hash(outpoint.to_string().as_bytes()).to_byte_array().to_vec();
    sig.extend_from_slice(&[0x5a; 32]);
    let mut w = Witness::new();
    w.push(sig);
    w
  }

  fn accept_to_mempool(&mut self, tx: Transaction) -> Result<Txid, RpcError> {
    let txid = tx.compute_txid();
    if self.txs.contains_key(&txid) && self.tx_on_best_chain_pub(&txid) {
      return Err(err(-27, "Transaction already in block chain"));
    }
    if self.wallet_side.mempool.iter().any(|t| t.compute_txid() == txid) {
      return Err(err(-27, "Transaction already in mempool"));
    }
    let view = self.spendable_view();
    let mut total_in = 0u64;
    let mut seen = BTreeSet::new();
    for i in &tx.input {
      let Some((out, _)) = view.get(&i.previous_output) else {
        return Err(err(-25, "bad-txns-inputs-missingorspent"));
      };
      if !seen.insert(i.previous_output) {
        return Err(err(-26, "bad-txns-inputs-duplicate"));
      }
      if i.witness.is_empty() && i.script_sig.is_empty() {
        return Err(err(-26, "mandatory-script-verify-flag-failed (unsigned input)"));
      }
      total_in += out.value.to_sat();
    }
    let total_out: u64 = tx.output.iter().map(|o| o.value.to_sat()).sum();
    if total_out > total_in {
      return Err(err(-26, "bad-txns-in-belowout"));
    }
    if tx.input.is_empty() || tx.output.is_empty() {
      return Err(err(-26, "bad-txns-vin-or-vout-empty"));
    }
    self.wallet_side.mempool.push(tx.clone());
    self.wallet_side.broadcasts.push(tx);
    Ok(txid)
  }

  pub fn tx_on_best_chain_pub(&self, txid: &Txid) -> bool {
    self
      .tx_blocks
      .get(txid)
      .is_some_and(|blocks| {
        blocks
          .iter()
          .any(|h| self.blocks.get(h).is_some_and(|info| self.best.get(info.height as usize) == Some(h)))
      })
  }

  /// Take the mempool for inclusion in the block being mined.
  pub fn drain_mempool(&mut self) -> Vec<Transaction> {
    std::mem::take(&mut self.wallet_side.mempool)
  }

  fn wallet_utxos(&self, wallet: &str) -> Vec<(OutPoint, TxOut, Option<u32>)> {
    let Some(w) = self.wallet_side.wallets.get(wallet) else {
      return Vec::new();
    };
    self
      .spendable_view()
      .into_iter()
      .filter(|(_, (o, _))| w.scripts.contains(&o.script_pubkey))
      .map(|(p, (o, h))| (p, o, h))
      .collect()
  }

  pub fn wallet_rpc(
    &mut self,
    wallet: Option<&str>,
    method: &str,
    params: &[Value],
    rng: &mut Rng,
  ) -> Option<Result<Value, RpcError>> {
    let tip = self.tip_height();
    let need_wallet = |w: Option<&str>| -> Result<String, RpcError> {
      match w {
        Some(w) => Ok(w.to_string()),
        None => Err(err(-19, "Wallet file not specified (must request wallet RPC through /wallet/<filename> uri-path).")),
      }
    };
    let r = match method {
      "listwallets" => Ok(json!(
        self
          .wallet_side
          .wallets
          .values()
          .filter(|w| w.loaded)
          .map(|w| w.name.clone())
          .collect::<Vec<_>>()
      )),
      "listwalletdir" => Ok(json!({"wallets": self.wallet_side.wallets.keys().map(|n| json!({"name": n})).collect::<Vec<_>>()})),
      "loadwallet" => {
        let name = params.first().and_then(|v| v.as_str()).unwrap_or("");
        match self.wallet_side.wallets.get_mut(name) {
          Some(w) if w.loaded => Err(err(-35, "Wallet is already loaded.")),
          Some(w) => {
            w.loaded = true;
            Ok(json!({"name": name, "warning": ""}))
          }
          None => Err(err(-18, "Wallet file verification failed. Path does not exist.")),
        }
      }
      "createwallet" => {
        let name = params.first().and_then(|v| v.as_str()).unwrap_or("").to_string();
        if self.wallet_side.wallets.contains_key(&name) {
          Err(err(-4, "Wallet file verification failed. Database already exists."))
        } else {
          self.create_wallet(&name);
          self.wallet_side.wallets.get_mut(&name).unwrap().descriptors.clear();
          Ok(json!({"name": name, "warning": ""}))
        }
      }
      "getwalletinfo" => need_wallet(wallet).map(|name| {
        json!({
          "walletname": name,
          "walletversion": 169900,
          "format": "sqlite",
          "balance": 0.0,
          "unconfirmed_balance": 0.0,
          "immature_balance": 0.0,
          "txcount": 0,
          "keypoolsize": 1000,
          "keypoolsize_hd_internal": 1000,
          "paytxfee": 0.0,
          "private_keys_enabled": true,
          "avoid_reuse": false,
          "scanning": false,
          "descriptors": true,
          "external_signer": false,
        })
      }),
      "listdescriptors" => need_wallet(wallet).map(|name| {
        let w = &self.wallet_side.wallets[&name];
        json!({
          "wallet_name": name,
          "descriptors": w.descriptors.iter().map(|(d, internal)| json!({
            "desc": d,
            "timestamp": 0,
            "active": true,
            "internal": internal,
            "range": [0, 999],
            "next": 0,
          })).collect::<Vec<_>>(),
        })
      }),
      "importdescriptors" => need_wallet(wallet).map(|name| {
        let list = params.first().and_then(|v| v.as_array()).cloned().unwrap_or_default();
        let w = self.wallet_side.wallets.get_mut(&name).unwrap();
        for d in &list {
          let desc = d["desc"].as_str().unwrap_or("").to_string();
          w.descriptors.push((desc, d["internal"].as_bool().unwrap_or(false)));
        }
        json!(list.iter().map(|_| json!({"success": true})).collect::<Vec<_>>())
      }),
      "getdescriptorinfo" => {
        let d = params.first().and_then(|v| v.as_str()).unwrap_or("");
        Ok(json!({
          "descriptor": format!("{d}#cccccccc"),
          "checksum": "cccccccc",
          "isrange": false,
          "issolvable": true,
          "hasprivatekeys": true,
        }))
      }
      "getnewaddress" | "getrawchangeaddress" => need_wallet(wallet).map(|name| {
        let script = self.new_address(&name);
        json!(self.address_string(&script).unwrap())
      }),
      "getbalances" => need_wallet(wallet).map(|name| {
        let total: u64 = self
          .wallet_utxos(&name)
          .iter()
          .filter(|(_, _, h)| h.is_some())
          .map(|(_, o, _)| o.value.to_sat())
          .sum();
        json!({"mine": {"trusted": Amount::from_sat(total).to_btc(), "untrusted_pending": 0.0, "immature": 0.0}})
      }),
      "listunspent" => need_wallet(wallet).map(|name| {
        let minconf = params.first().and_then(|v| v.as_u64()).unwrap_or(1);
        let locked = self.wallet_side.wallets[&name].locked.clone();
        let list: Vec<Value> = self
          .wallet_utxos(&name)
          .into_iter()
          .filter(|(p, _, h)| !locked.contains(p) && (minconf == 0 || h.is_some()))
          .map(|(p, o, h)| {
            json!({
              "txid": p.txid.to_string(),
              "vout": p.vout,
              "address": self.address_string(&o.script_pubkey),
              "scriptPubKey": hex::encode(o.script_pubkey.as_bytes()),
              "amount": o.value.to_btc(),
              "confirmations": h.map(|h| tip - h + 1).unwrap_or(0),
              "spendable": true,
              "solvable": true,
              "safe": true,
            })
          })
          .collect();
        json!(list)
      }),
      "listlockunspent" => need_wallet(wallet).map(|name| {
        let view = self.spendable_view();
        json!(
          self.wallet_side.wallets[&name]
            .locked
            .iter()
            .filter(|p| view.contains_key(p))
            .map(|p| json!({"txid": p.txid.to_string(), "vout": p.vout}))
            .collect::<Vec<_>>()
        )
      }),
      "lockunspent" => need_wallet(wallet).and_then(|name| {
        let unlock = params.first().and_then(|v| v.as_bool()).unwrap_or(false);
        let list = params.get(1).and_then(|v| v.as_array()).cloned().unwrap_or_default();
        let view = self.spendable_view();
        let mut points = Vec::new();
        for o in &list {
          let txid: Txid = o["txid"].as_str().and_then(|s| s.parse().ok()).ok_or_else(|| err(-8, "Invalid parameter, txid"))?;
          let p = OutPoint {
            txid,
            vout: o["vout"].as_u64().unwrap_or(0) as u32,
          };
          if !unlock && !view.contains_key(&p) {
            return Err(err(-8, "Invalid parameter, expected unspent output"));
          }
          points.push(p);
        }
        let w = self.wallet_side.wallets.get_mut(&name).unwrap();
        for p in points {
          if unlock {
            w.locked.remove(&p);
          } else if !w.locked.insert(p) {
            return Err(err(-8, "Invalid parameter, output already locked"));
          }
        }
        if unlock && list.is_empty() {
          w.locked.clear();
        }
        Ok(json!(true))
      }),
      "fundrawtransaction" => need_wallet(wallet).and_then(|name| {
        // the unfunded transaction may have no inputs, which the segwit
        // serialisation cannot express: decode the legacy layout by parts
        let mut tx: Transaction = params
          .first()
          .and_then(|v| v.as_str())
          .and_then(|s| hex::decode(s).ok())
          .and_then(|bytes| {
            use bitcoin::consensus::Decodable;
            let mut cursor = std::io::Cursor::new(bytes);
            let version = bitcoin::transaction::Version::consensus_decode(&mut cursor).ok()?;
            let input = Vec::<TxIn>::consensus_decode(&mut cursor).ok()?;
            let output = Vec::<TxOut>::consensus_decode(&mut cursor).ok()?;
            let lock_time = bitcoin::absolute::LockTime::consensus_decode(&mut cursor).ok()?;
            Some(Transaction {
              version,
              lock_time,
              input,
              output,
            })
          })
          .ok_or_else(|| err(-22, "TX decode failed"))?;
        let options = params.get(1).cloned().unwrap_or(json!({}));
        // feeRate is BTC per kvB
        let fee_rate_per_kvb = options["feeRate"]
          .as_f64()
          .or_else(|| options["fee_rate"].as_f64().map(|s| s / 100_000.0))
          .unwrap_or(0.00001);
        let sat_per_vb = fee_rate_per_kvb * 100_000_000.0 / 1000.0;
        let change_position = options["changePosition"].as_u64();
        let view = self.spendable_view();
        let locked = self.wallet_side.wallets[&name].locked.clone();
        let mut input_value = 0u64;
        for i in &tx.input {
          match view.get(&i.previous_output) {
            Some((o, _)) => input_value += o.value.to_sat(),
            None => return Err(err(-4, "Insufficient funds (preset input unknown)")),
          }
        }
        let output_value: u64 = tx.output.iter().map(|o| o.value.to_sat()).sum();
        // candidates: any unlocked output of this wallet not already an input
        let mut candidates: Vec<(OutPoint, TxOut)> = self
          .wallet_utxos(&name)
          .into_iter()
          .filter(|(p, _, h)| h.is_some() && !locked.contains(p) && !tx.input.iter().any(|i| i.previous_output == *p))
          .map(|(p, o, _)| (p, o))
          .collect();
        // adversarial coin selection: any order, and outputs that hold
        // inscriptions or runes (which the node cannot know, but the simulator
        // does) are tried first, so an output ord failed to lock is spent
        rng.shuffle(&mut candidates);
        {
          let m = self.tip_model();
          let precious = |p: &OutPoint| -> bool {
            m.runes.balances.contains_key(p)
              || m.utxos.get(p).is_some_and(|u| {
                m.inscr.list.iter().any(|i| {
                  i.sat
                    .is_some_and(|s| crate::model::offset_of(&u.ranges, s).is_some())
                })
              })
          };
          // `pop` takes from the end
          candidates.sort_by_key(|(p, _)| precious(p));
        }
        self.wallet_side.coin_selections += 1;
        // unsigned inputs will each get a 65-byte witness; one change output
        let fee_for = |tx: &Transaction| -> u64 {
          let unsigned = tx.input.iter().filter(|i| i.witness.is_empty()).count();
          let vsize = tx.vsize() as f64 + 17.0 * unsigned as f64 + 43.0;
          (vsize * sat_per_vb).ceil() as u64
        };
        let mut picked = 0usize;
        while input_value < output_value + fee_for(&tx) + 546 {
          let Some((p, o)) = candidates.pop() else {
            return Err(err(-6, "Insufficient funds"));
          };
          input_value += o.value.to_sat();
          tx.input.push(TxIn {
            previous_output: p,
            script_sig: ScriptBuf::new(),
            sequence: Sequence::ENABLE_RBF_NO_LOCKTIME,
            witness: Witness::new(),
          });
          picked += 1;
        }
        self.wallet_side.adversarial_picks += picked as u64;
        let fee = fee_for(&tx);
        let change = input_value - output_value - fee;
        let mut changepos: i64 = -1;
        if change >= 546 {
          let script = self.new_address(&name);
          let pos = change_position
            .map(|p| (p as usize).min(tx.output.len()))
            .unwrap_or(tx.output.len());
          tx.output.insert(
            pos,
            TxOut {
              value: Amount::from_sat(change),
              script_pubkey: script,
            },
          );
          changepos = pos as i64;
        }
        let actual_fee = input_value - tx.output.iter().map(|o| o.value.to_sat()).sum::<u64>();
        Ok(json!({"hex": serialize_hex(&tx), "fee": Amount::from_sat(actual_fee).to_btc(), "changepos": changepos}))
      }),
      "signrawtransactionwithwallet" => need_wallet(wallet).and_then(|name| {
        let mut tx: Transaction = params
          .first()
          .and_then(|v| v.as_str())
          .and_then(|s| deserialize_hex(s).ok())
          .ok_or_else(|| err(-22, "TX decode failed"))?;
        let mut view = self.spendable_view();
        if let Some(prevtxs) = params.get(1).and_then(|v| v.as_array()) {
          for p in prevtxs {
            if let (Some(txid), Some(vout), Some(spk)) = (
              p["txid"].as_str().and_then(|s| s.parse::<Txid>().ok()),
              p["vout"].as_u64(),
              p["scriptPubKey"].as_str().and_then(|s| hex::decode(s).ok()),
            ) {
              let value = p["amount"].as_f64().map(|a| Amount::from_btc(a).unwrap_or(Amount::ZERO)).unwrap_or(Amount::ZERO);
              view.insert(
                OutPoint {
                  txid,
                  vout: vout as u32,
                },
                (
                  TxOut {
                    value,
                    script_pubkey: ScriptBuf::from_bytes(spk),
                  },
                  None,
                ),
              );
            }
          }
        }
        let scripts = self.wallet_side.wallets[&name].scripts.clone();
        let mut errors = Vec::new();
        for i in &mut tx.input {
          if !i.witness.is_empty() || !i.script_sig.is_empty() {
            continue;
          }
          match view.get(&i.previous_output) {
            Some((o, _)) if scripts.contains(&o.script_pubkey) => {
              i.witness = Self::fake_witness(&i.previous_output);
            }
            Some(_) => errors.push(json!({
              "txid": i.previous_output.txid.to_string(),
              "vout": i.previous_output.vout,
              "witness": [],
              "scriptSig": "",
              "sequence": i.sequence.0,
              "error": "Unable to sign input, invalid stack size (possibly missing key)",
            })),
            None => errors.push(json!({
              "txid": i.previous_output.txid.to_string(),
              "vout": i.previous_output.vout,
              "witness": [],
              "scriptSig": "",
              "sequence": i.sequence.0,
              "error": "Input not found or already spent",
            })),
          }
        }
        let complete = errors.is_empty();
        let mut v = json!({"hex": serialize_hex(&tx), "complete": complete});
        if !complete {
          v["errors"] = json!(errors);
        }
        Ok(v)
      }),
      "sendrawtransaction" => {
        let tx: Result<Transaction, RpcError> = params
          .first()
          .and_then(|v| v.as_str())
          .and_then(|s| deserialize_hex(s).ok())
          .ok_or_else(|| err(-22, "TX decode failed"));
        tx.and_then(|tx| {
          self.wallet_side.send_attempts.push(tx.clone());
          let sender = wallet.map(|w| w.to_string());
          let txid = self.accept_to_mempool(tx)?;
          if let Some(name) = sender
            && let Some(w) = self.wallet_side.wallets.get_mut(&name)
          {
            w.sent.push(txid);
          }
          Ok(json!(txid.to_string()))
        })
      }
      "utxoupdatepsbt" | "walletprocesspsbt" => {
        let sign = method == "walletprocesspsbt" && params.get(1).and_then(|v| v.as_bool()).unwrap_or(true);
        let decoded = params
          .first()
          .and_then(|v| v.as_str())
          .and_then(|s| ord::base64_decode(s).ok())
          .and_then(|b| Psbt::deserialize(&b).ok());
        match decoded {
          None => Err(err(-22, "TX decode failed")),
          Some(mut psbt) => {
            if sign {
              self.wallet_side.sign_requests.push(psbt.clone());
            }
            let view = self.spendable_view();
            let scripts = wallet
              .and_then(|w| self.wallet_side.wallets.get(w))
              .map(|w| w.scripts.clone())
              .unwrap_or_default();
            for (n, input) in psbt.inputs.iter_mut().enumerate() {
              let p = psbt.unsigned_tx.input[n].previous_output;
              if input.witness_utxo.is_none()
                && let Some((o, _)) = view.get(&p)
              {
                input.witness_utxo = Some(o.clone());
              }
              if sign
                && input.final_script_witness.is_none()
                && input.final_script_sig.is_none()
                && input.witness_utxo.as_ref().is_some_and(|o| scripts.contains(&o.script_pubkey))
              {
                input.final_script_witness = Some(Self::fake_witness(&p));
              }
            }
            if sign && self.wallet_side.sign_fault == Some(crate::scenario::SignFault::AlterOnProcess) {
              // a signature of an input that is not the wallet's comes back changed
              for input in psbt.inputs.iter_mut() {
                let foreign = input.witness_utxo.as_ref().is_some_and(|o| !scripts.contains(&o.script_pubkey));
                if foreign && let Some(w) = &mut input.final_script_witness {
                  let mut changed = Witness::new();
                  changed.push([0x77u8; 64]);
                  *w = changed;
                  self.wallet_side.sign_fault = None;
                  self.wallet_side.sign_faults_fired += 1;
                  break;
                }
              }
            }
            let complete = psbt
              .inputs
              .iter()
              .all(|i| i.final_script_witness.is_some() || i.final_script_sig.is_some());
            let encoded = ord::base64_encode(&psbt.serialize());
            if method == "utxoupdatepsbt" {
              Ok(json!(encoded))
            } else {
              Ok(json!({"psbt": encoded, "complete": complete}))
            }
          }
        }
      }
      "finalizepsbt" => {
        let decoded = params
          .first()
          .and_then(|v| v.as_str())
          .and_then(|s| ord::base64_decode(s).ok())
          .and_then(|b| Psbt::deserialize(&b).ok());
        match decoded {
          None => Err(err(-22, "TX decode failed")),
          Some(psbt) => {
            let complete = psbt
              .inputs
              .iter()
              .all(|i| i.final_script_witness.is_some() || i.final_script_sig.is_some());
            if complete {
              let mut tx = psbt.unsigned_tx.clone();
              for (n, i) in psbt.inputs.iter().enumerate() {
                if let Some(w) = &i.final_script_witness {
                  tx.input[n].witness = w.clone();
                }
                if let Some(s) = &i.final_script_sig {
                  tx.input[n].script_sig = s.clone();
                }
              }
              if let Some(fault) = self.wallet_side.sign_fault {
                use crate::scenario::SignFault::*;
                let scripts = wallet
                  .and_then(|w| self.wallet_side.wallets.get(w))
                  .map(|w| w.scripts.clone())
                  .unwrap_or_default();
                let foreign = psbt
                  .inputs
                  .iter()
                  .position(|i| i.witness_utxo.as_ref().is_some_and(|o| !scripts.contains(&o.script_pubkey)));
                let fired = match (fault, foreign) {
                  (AlterOnFinalize, Some(n)) => {
                    let mut changed = Witness::new();
                    changed.push([0x78u8; 64]);
                    tx.input[n].witness = changed;
                    tx.input[n].script_sig = ScriptBuf::new();
                    true
                  }
                  (MoveToScriptSig, Some(n)) if !tx.input[n].witness.is_empty() => {
                    let sig = tx.input[n].witness.iter().next().map(|s| s.to_vec()).unwrap_or_default();
                    let mut b = bitcoin::script::PushBytesBuf::new();
                    let _ = b.extend_from_slice(&sig);
                    tx.input[n].script_sig = bitcoin::script::Builder::new().push_slice(b).into_script();
                    tx.input[n].witness = Witness::new();
                    true
                  }
                  (ExtraInput, _) => {
                    let mut extra = tx.input[0].clone();
                    extra.previous_output.vout = extra.previous_output.vout.wrapping_add(7);
                    tx.input.push(extra);
                    true
                  }
                  (DropInput, _) if tx.input.len() > 1 => {
                    tx.input.pop();
                    true
                  }
                  _ => false,
                };
                if fired {
                  self.wallet_side.sign_fault = None;
                  self.wallet_side.sign_faults_fired += 1;
                }
              }
              Ok(json!({"hex": serialize_hex(&tx), "complete": true}))
            } else {
              Ok(json!({"psbt": ord::base64_encode(&psbt.serialize()), "complete": false}))
            }
          }
        }
      }
      "simulaterawtransaction" => need_wallet(wallet).and_then(|name| {
        let list = params.first().and_then(|v| v.as_array()).cloned().unwrap_or_default();
        let scripts = self.wallet_side.wallets[&name].scripts.clone();
        let view = self.spendable_view();
        let mut change: i64 = 0;
        for h in &list {
          let tx: Transaction = h.as_str().and_then(|s| deserialize_hex(s).ok()).ok_or_else(|| err(-22, "TX decode failed"))?;
          for i in &tx.input {
            match view.get(&i.previous_output) {
              Some((o, _)) if scripts.contains(&o.script_pubkey) => change -= o.value.to_sat() as i64,
              Some(_) => {}
              None => return Err(err(-8, "One or more transaction inputs are missing or have been spent already")),
            }
          }
          for o in &tx.output {
            if scripts.contains(&o.script_pubkey) {
              change += o.value.to_sat() as i64;
            }
          }
        }
        Ok(json!({"balance_change": bitcoin::SignedAmount::from_sat(change).to_btc()}))
      }),
      "gettransaction" => need_wallet(wallet).and_then(|_name| {
        self.wallet_side.polls += 1;
        if let Some((every, left)) = self.wallet_side.mine_on_poll
          && left > 0
          && self.wallet_side.polls % u64::from(every.max(1)) == 0
        {
          self.wallet_side.mine_on_poll = Some((every, left - 1));
          self.wallet_side.blocks_mined_on_poll += 1;
          self.mine(&crate::scenario::BlockSpec {
            txs: Vec::new(),
            coinbase: crate::scenario::CoinbaseSpec {
              outputs: vec![crate::scenario::OutSpec {
                weight: 1,
                exact: None,
                script: crate::scenario::ScriptSpec::P2tr(900),
              }],
              claim: crate::scenario::Claim::Full,
              duplicate_of: None,
            },
            include_mempool: true,
            mempool_limit: None,
          });
        }
        let tip = self.tip_height();
        let txid: Txid = params
          .first()
          .and_then(|v| v.as_str())
          .and_then(|s| s.parse().ok())
          .ok_or_else(|| err(-5, "Invalid or non-wallet transaction id"))?;
        let in_mempool = self.wallet_side.mempool.iter().find(|t| t.compute_txid() == txid).cloned();
        let confirmed = self.tx_on_best_chain_pub(&txid);
        let tx = match (&in_mempool, confirmed) {
          (Some(tx), _) => tx.clone(),
          (None, true) => self.txs[&txid].clone(),
          _ => return Err(err(-5, "Invalid or non-wallet transaction id")),
        };
        let (confirmations, blockhash) = if confirmed {
          let info = self.tx_blocks[&txid]
            .iter()
            .filter_map(|h| self.blocks.get(h))
            .find(|info| self.best.get(info.height as usize) == Some(&info.hash))
            .unwrap();
          (i64::from(tip - info.height + 1), Some(info.hash.to_string()))
        } else {
          (0, None)
        };
        let mut v = json!({
          "amount": 0.0,
          "confirmations": confirmations,
          "txid": txid.to_string(),
          "time": 0,
          "timereceived": 0,
          "details": [],
          "hex": serialize_hex(&tx),
          "bip125-replaceable": "no",
          "walletconflicts": [],
        });
        if let Some(h) = blockhash {
          v["blockhash"] = json!(h);
        }
        Ok(v)
      }),
      "listtransactions" => Ok(json!([])),
      _ => return None,
    };
    let _ = btc(0);
    Some(r)
  }
}
