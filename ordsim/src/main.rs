mod check;
mod crash;
mod disk;
mod events;
mod exec;
mod explorer;
mod gen_;
mod model;
mod oracle;
mod reorg;
mod rng;
mod runner;
mod scenario;
mod shrink;
mod sim;
mod twin;
mod wallet;
mod wallet_node;
mod web;
mod world;

fn main() {
  let args: Vec<String> = std::env::args().collect();
  let code = runner::main(&args[1..]);
  std::process::exit(code);
}
