mod disk;
mod exec;
mod model;
mod rng;
mod scenario;
mod sim;
mod world;

use scenario::*;

fn main() {
  exec::install_panic_hook();
  let config = Config { commit_interval: 3, ..Config::default() };
  let mut ex = exec::Exec::new(&config, 1);
  let block = BlockSpec {
    txs: vec![TxSpec {
      inputs: vec![InSpec { sel: InputSel::Utxo(0), witness: WitnessSpec::None }],
      outputs: vec![
        OutSpec { weight: 3, exact: None, script: ScriptSpec::P2tr(1) },
        OutSpec { weight: 1, exact: None, script: ScriptSpec::P2wpkh(2) },
      ],
      fee_permille: 10,
      fee_exact: None,
      runestone: None,
      runestone_at: 0,
      runestone_value: 0,
    }],
    coinbase: CoinbaseSpec { outputs: vec![], claim: Claim::Full, duplicate_of: None },
  };
  ex.mine(&vec![block.clone(); 8]);
  let t = std::time::Instant::now();
  let r = ex.update(&UpdateSpec { lag: 2, ..Default::default() });
  println!("update: {:?} in {:?}", r.result, t.elapsed());
  println!("outcome: {:?}", r.outcome);
  let idx = ex.index();
  println!("block count {:?}", idx.block_count());
  let dump = idx.verif_dump().unwrap();
  for (name, rows) in &dump { println!("{name}: {}", rows.len()); }
  let sim = ex.finish();
  sim.snapshot(|s| println!("probes {:?} trace {:x} len {}", s.probes, s.trace, s.trace_len));
}
