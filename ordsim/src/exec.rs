//! Executes operations against the real `ord::Index` inside the simulator.

use {
  crate::{
    disk::{DiskPlan, Recovery, SimDisk},
    rng::Rng,
    scenario::*,
    sim::{Sim, SimHooks, UpdateOutcome},
  },
  clap::Parser,
  ord::{Index, index::event::Event, settings::Settings},
  std::{
    collections::BTreeMap,
    panic::{AssertUnwindSafe, catch_unwind},
    path::PathBuf,
    sync::{Arc, Mutex},
  },
};

pub static PANICS: Mutex<Vec<String>> = Mutex::new(Vec::new());

pub fn install_panic_hook() {
  std::panic::set_hook(Box::new(|info| {
    let thread = std::thread::current();
    let msg = format!(
      "thread `{}` panicked: {}",
      thread.name().unwrap_or("<unnamed>"),
      info
    );
    if thread.name() == Some("main") || std::env::var_os("ORDSIM_VERBOSE").is_some() {
      eprintln!("{msg}");
    }
    PANICS.lock().unwrap_or_else(|e| e.into_inner()).push(msg);
  }));
}

pub fn take_panics() -> Vec<String> {
  std::mem::take(&mut *PANICS.lock().unwrap_or_else(|e| e.into_inner()))
}

#[derive(Debug, Clone)]
pub struct UpdateResult {
  /// `Ok` or the error chain as text
  pub result: Result<(), String>,
  pub unrecoverable: bool,
  pub panics: Vec<String>,
  pub outcome: UpdateOutcome,
}

pub struct Exec {
  pub sim: Arc<Sim>,
  pub config: Config,
  pub index: Option<Arc<Index>>,
  pub height_limit: Option<u32>,
  pub hidden: Vec<String>,
  pub events: Vec<Event>,
  event_rx: Option<tokio::sync::mpsc::Receiver<Event>>,
  pub seed: u64,
  pub updates: u64,
  pub reopens: u64,
  pub crashes: u64,
  pub disk_totals: BTreeMap<&'static str, u64>,
  fault_rng: Rng,
}

fn scratch_dir() -> PathBuf {
  PathBuf::from(format!("/verif/build/simfs/{}", std::process::id()))
}

impl Exec {
  pub fn new(config: &Config, seed: u64) -> Self {
    let sim = Sim::new(config);
    sim.snapshot(|s| {
      s.index_path = scratch_dir().join("index.redb");
      s.disk = Some(SimDisk::new(Vec::new()));
      if std::env::var_os("ORDSIM_TRACE_DIR").is_some() {
        s.trace_log = Some(Vec::new());
      }
    });
    ord::verif::install(Arc::new(SimHooks(sim.clone())));
    take_panics();
    Self {
      sim,
      config: config.clone(),
      index: None,
      height_limit: None,
      hidden: Vec::new(),
      events: Vec::new(),
      event_rx: None,
      seed,
      updates: 0,
      reopens: 0,
      crashes: 0,
      disk_totals: BTreeMap::new(),
      fault_rng: Rng::new(seed).fork("faults"),
    }
  }

  pub fn settings(&self) -> Settings {
    let c = &self.config;
    let dir = scratch_dir();
    let mut args: Vec<String> = vec![
      "ord".into(),
      c.chain.flag().into(),
      "--bitcoin-rpc-url".into(),
      "sim.invalid:1".into(),
      "--bitcoin-rpc-username".into(),
      "sim".into(),
      "--bitcoin-rpc-password".into(),
      "sim".into(),
      "--bitcoin-data-dir".into(),
      dir.join("bitcoin").display().to_string(),
      "--data-dir".into(),
      dir.display().to_string(),
      "--index".into(),
      dir.join("index.redb").display().to_string(),
      "--commit-interval".into(),
      c.commit_interval.to_string(),
      "--savepoint-interval".into(),
      c.savepoint_interval.to_string(),
      "--max-savepoints".into(),
      c.max_savepoints.to_string(),
      "--index-cache-size".into(),
      c.index_cache_size.to_string(),
      "--bitcoin-rpc-limit".into(),
      c.bitcoin_rpc_limit.to_string(),
    ];
    if c.index_sats {
      args.push("--index-sats".into());
    }
    if c.index_addresses {
      args.push("--index-addresses".into());
    }
    if c.index_transactions {
      args.push("--index-transactions".into());
    }
    if c.index_runes {
      args.push("--index-runes".into());
    }
    if c.no_index_inscriptions {
      args.push("--no-index-inscriptions".into());
    }
    if c.integration_test {
      args.push("--integration-test".into());
    }
    if let Some(limit) = self.height_limit {
      args.push("--height-limit".into());
      args.push(limit.to_string());
    }
    let options = ord::Options::try_parse_from(args).expect("options parse");
    let mut env = BTreeMap::new();
    if !self.hidden.is_empty() {
      env.insert("HIDDEN".to_string(), self.hidden.join(" "));
    }
    Settings::merge(options, env).expect("settings")
  }

  fn disk(&self) -> SimDisk {
    self.sim.snapshot(|s| s.disk.clone().unwrap())
  }

  pub fn is_open(&self) -> bool {
    self.index.is_some()
  }

  /// Open (or create) the index on the current simulated disk.
  pub fn open(&mut self) -> Result<(), String> {
    assert!(self.index.is_none());
    let settings = self.settings();
    let (sender, receiver) = if self.config.events {
      let (tx, rx) = tokio::sync::mpsc::channel(1 << 20);
      (Some(tx), Some(rx))
    } else {
      (None, None)
    };
    let opened = catch_unwind(AssertUnwindSafe(|| {
      Index::open_with_event_sender(&settings, sender)
    }));
    match opened {
      Ok(Ok(index)) => {
        self.index = Some(Arc::new(index));
        self.event_rx = receiver;
        Ok(())
      }
      Ok(Err(e)) => Err(format!("{e:#}")),
      Err(_) => Err(format!("panic: {:?}", take_panics())),
    }
  }

  fn drain_events(&mut self) {
    if let Some(rx) = &mut self.event_rx {
      while let Ok(e) = rx.try_recv() {
        self.events.push(e);
      }
    }
  }

  fn absorb_disk_stats(&mut self, disk: &SimDisk) {
    let stats = disk.with(|d| d.stats.clone());
    *self.disk_totals.entry("reads").or_default() += stats.reads;
    *self.disk_totals.entry("writes").or_default() += stats.writes;
    *self.disk_totals.entry("syncs").or_default() += stats.syncs;
    *self.disk_totals.entry("set_lens").or_default() += stats.set_lens;
    *self.disk_totals.entry("bytes_written").or_default() += stats.bytes_written;
    *self.disk_totals.entry("failed_ops").or_default() += stats.failed_ops;
  }

  /// Drop the index and continue on a new disk object holding `image`.
  fn replace_disk(&mut self, image: Vec<u8>) {
    let old = self.disk();
    self.absorb_disk_stats(&old);
    self.sim.snapshot(|s| s.disk = Some(SimDisk::new(image)));
  }

  /// Clean close: everything redb wrote is on disk.
  pub fn close(&mut self) {
    self.drain_events();
    self.index = None;
    self.event_rx = None;
    let image = self.disk().clean_image();
    self.replace_disk(image);
  }

  /// The process died: drop everything, keep what the disk model says survives.
  pub fn crash(&mut self, recovery: Recovery) {
    self.drain_events();
    let disk = self.disk();
    disk.kill();
    let (image, kept, dropped) = disk.recovery_image(recovery, &mut self.fault_rng);
    let dropped_index = catch_unwind(AssertUnwindSafe(|| {
      self.index = None;
    }));
    if dropped_index.is_err() {
      // a panic while dropping the index on a dead disk is reported by the caller
    }
    self.event_rx = None;
    self.crashes += 1;
    self.sim.snapshot(|s| {
      s.note(&format!("crash recovery={recovery:?} kept={kept} dropped={dropped}"));
      *s.faults_total.entry(format!("crash.{recovery:?}")).or_default() += 1;
    });
    self.replace_disk(image);
  }

  pub fn reopen(&mut self) -> Result<(), String> {
    if self.index.is_some() {
      self.close();
    }
    self.reopens += 1;
    self.sim.snapshot(|s| {
      s.note("reopen");
      *s.faults_total.entry("reopen".into()).or_default() += 1;
    });
    self.open()
  }

  pub fn mine(&mut self, blocks: &[BlockSpec]) {
    self.sim.snapshot(|s| {
      for b in blocks {
        s.world.mine(b);
      }
      s.world_log.push(NodeEvent::Mine(blocks.to_vec()));
      s.clock_ms += 600_000 * blocks.len() as u64;
    });
  }

  pub fn reorg(&mut self, depth: u32, blocks: &[BlockSpec]) -> u32 {
    self.sim.snapshot(|s| {
      let d = s.world.reorg(depth, blocks);
      s.world_log.push(NodeEvent::Reorg {
        depth,
        blocks: blocks.to_vec(),
      });
      *s.faults_total.entry("reorg_between_updates".into()).or_default() += 1;
      s.note(&format!("reorg depth={d} new={}", blocks.len()));
      d
    })
  }

  /// One `Index::update` call under the given schedule and fault plan.
  pub fn update(&mut self, spec: &UpdateSpec) -> UpdateResult {
    if self.index.is_some() && spec.height_limit != self.height_limit {
      self.close();
    }
    if self.index.is_none() {
      self.height_limit = spec.height_limit;
      if let Err(e) = self.open() {
        return UpdateResult {
          result: Err(format!("open failed: {e}")),
          unrecoverable: false,
          panics: take_panics(),
          outcome: UpdateOutcome::default(),
        };
      }
    }

    let disk = self.disk();
    let mut plan = DiskPlan::default();
    match &spec.disk_fault {
      Some(DiskFault::CrashAtOp { op, .. }) => plan.crash_at_op = Some(*op),
      Some(DiskFault::EioAtOp { op }) => plan.eio_at_op = Some(*op),
      Some(DiskFault::Enospc { extra_bytes }) => {
        plan.enospc_limit = Some(disk.with(|d| d.stats.bytes_written * 0) + disk.clean_image().len() as u64 + extra_bytes)
      }
      _ => {}
    }
    disk.arm(plan);

    let tip = self.sim.snapshot(|s| u64::from(s.world.tip_height()));
    let pending_blocks: u64 = spec
      .node_events
      .iter()
      .map(|e| match &e.event {
        NodeEvent::Mine(b) => b.len() as u64,
        NodeEvent::Reorg { blocks, .. } => blocks.len() as u64,
      })
      .sum();
    self.updates += 1;
    self.sim.begin_update(
      std::thread::current().id(),
      spec,
      self.seed ^ self.updates.wrapping_mul(0x9e3779b97f4a7c15),
      tip + pending_blocks + 64,
    );

    let index = self.index.as_ref().unwrap();
    if spec.competing_update.is_some() {
      let competitor = index.clone();
      let sim = self.sim.clone();
      self.sim.snapshot(|s| {
        s.competitor = Some(Arc::new(move || {
          if let Err(e) = competitor.update() {
            sim.snapshot(|s| s.note(&format!("competing update failed: {e:#}")));
          }
        }))
      });
    }
    let result = catch_unwind(AssertUnwindSafe(|| index.update()));
    self.sim.snapshot(|s| s.competitor = None);
    let outcome = self.sim.end_update();
    self.drain_events();

    let mut unrecoverable = false;
    let result = match result {
      Ok(Ok(())) => Ok(()),
      Ok(Err(e)) => {
        let text = format!("{e:#}");
        unrecoverable = text.contains("unrecoverable reorg detected");
        Err(text)
      }
      Err(_) => Err("panic in Index::update".to_string()),
    };

    let eio = disk.with(|d| d.eio_fired);
    let enospc = disk.with(|d| d.enospc_fired);
    self.sim.snapshot(|s| {
      if eio {
        *s.faults_total.entry("eio".into()).or_default() += 1;
      }
      if enospc > 0 {
        *s.faults_total.entry("enospc".into()).or_default() += 1;
      }
      if outcome.crashed {
        *s.faults_total.entry("crash".into()).or_default() += 1;
      }
    });
    disk.arm(DiskPlan::default());

    UpdateResult {
      result,
      unrecoverable,
      panics: take_panics(),
      outcome,
    }
  }

  /// Run `ord <args>` in-process; stdout of the command is captured.
  pub fn cli(&self, args: &[String]) -> Result<String, String> {
    use std::io::Write;
    let dir = scratch_dir();
    std::fs::create_dir_all(&dir).ok();
    let path = dir.join("stdout.txt");
    let file = std::fs::File::create(&path).map_err(|e| e.to_string())?;
    std::io::stdout().flush().ok();
    // SAFETY: plain fd juggling in a single-purpose child process
    let saved = unsafe { libc::dup(1) };
    unsafe { libc::dup2(std::os::fd::AsRawFd::as_raw_fd(&file), 1) };
    let result = catch_unwind(AssertUnwindSafe(|| ord::verif::run_cli(args)));
    std::io::stdout().flush().ok();
    unsafe {
      libc::dup2(saved, 1);
      libc::close(saved);
    }
    drop(file);
    let out = std::fs::read_to_string(&path).unwrap_or_default();
    match result {
      Ok(Ok(())) => Ok(out),
      Ok(Err(e)) => Err(e),
      Err(_) => Err(format!("panic: {:?}", take_panics())),
    }
  }

  pub fn base_args(&self) -> Vec<String> {
    let c = &self.config;
    let dir = scratch_dir();
    let mut args: Vec<String> = vec![
      "ord".into(),
      c.chain.flag().into(),
      "--bitcoin-rpc-url".into(),
      "sim.invalid:1".into(),
      "--bitcoin-rpc-username".into(),
      "sim".into(),
      "--bitcoin-rpc-password".into(),
      "sim".into(),
      "--bitcoin-data-dir".into(),
      dir.join("bitcoin").display().to_string(),
      "--data-dir".into(),
      dir.display().to_string(),
    ];
    if c.index_sats {
      args.push("--index-sats".into());
    }
    if c.index_runes {
      args.push("--index-runes".into());
    }
    if c.index_addresses {
      args.push("--index-addresses".into());
    }
    args
  }

  pub fn index(&self) -> &Index {
    self.index.as_ref().expect("index open")
  }

  pub fn index_arc(&self) -> Arc<Index> {
    self.index.as_ref().expect("index open").clone()
  }

  pub fn scratch_dir(&self) -> PathBuf {
    scratch_dir()
  }

  pub fn take_events(&mut self) -> Vec<Event> {
    self.drain_events();
    std::mem::take(&mut self.events)
  }

  pub fn finish(mut self) -> Arc<Sim> {
    if self.index.is_some() {
      self.drain_events();
      self.index = None;
    }
    let disk = self.disk();
    self.absorb_disk_stats(&disk);
    let totals = self.disk_totals.clone();
    self.sim.snapshot(|s| {
      for (k, v) in totals {
        *s.probes.entry(match k {
          "reads" => "disk.reads",
          "writes" => "disk.writes",
          "syncs" => "disk.syncs",
          "set_lens" => "disk.set_lens",
          "bytes_written" => "disk.bytes_written",
          _ => "disk.failed_ops",
        }).or_default() += v;
      }
    });
    ord::verif::uninstall();
    self.sim.clone()
  }
}
