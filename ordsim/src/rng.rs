//! The only source of randomness in the simulator: a SplitMix64 stream.
//! Sub-streams are forked by label so that changing how many values one part
//! of the generator draws does not perturb another (helps shrinking).

#[derive(Clone, Debug)]
pub struct Rng {
  state: u64,
}

fn mix(mut z: u64) -> u64 {
  z = (z ^ (z >> 30)).wrapping_mul(0xbf58476d1ce4e5b9);
  z = (z ^ (z >> 27)).wrapping_mul(0x94d049bb133111eb);
  z ^ (z >> 31)
}

impl Rng {
  pub fn new(seed: u64) -> Self {
    Self {
      state: mix(seed ^ 0x9e3779b97f4a7c15),
    }
  }

  pub fn fork(&self, label: &str) -> Self {
    let mut h = self.state;
    for b in label.bytes() {
      h = mix(h ^ u64::from(b)).wrapping_add(0x9e3779b97f4a7c15);
    }
    Self { state: mix(h) }
  }

  pub fn next_u64(&mut self) -> u64 {
    self.state = self.state.wrapping_add(0x9e3779b97f4a7c15);
    mix(self.state)
  }

  /// Uniform in `0..n` (`n > 0`).
  pub fn below(&mut self, n: u64) -> u64 {
    debug_assert!(n > 0);
    // multiply-shift; bias is irrelevant here
    ((u128::from(self.next_u64()) * u128::from(n)) >> 64) as u64
  }

  pub fn range(&mut self, lo: u64, hi_inclusive: u64) -> u64 {
    lo + self.below(hi_inclusive - lo + 1)
  }

  pub fn usize(&mut self, n: usize) -> usize {
    self.below(n as u64) as usize
  }

  /// True with probability `num/den`.
  pub fn chance(&mut self, num: u64, den: u64) -> bool {
    self.below(den) < num
  }

  pub fn pick<'a, T>(&mut self, items: &'a [T]) -> &'a T {
    &items[self.usize(items.len())]
  }

  /// Index drawn with the given integer weights.
  pub fn weighted(&mut self, weights: &[u64]) -> usize {
    let total: u64 = weights.iter().sum();
    let mut x = self.below(total.max(1));
    for (i, w) in weights.iter().enumerate() {
      if x < *w {
        return i;
      }
      x -= w;
    }
    weights.len() - 1
  }

  pub fn bytes(&mut self, n: usize) -> Vec<u8> {
    (0..n).map(|_| self.next_u64() as u8).collect()
  }

  pub fn shuffle<T>(&mut self, items: &mut [T]) {
    for i in (1..items.len()).rev() {
      let j = self.usize(i + 1);
      items.swap(i, j);
    }
  }
}
