//! Reference model, stepped transaction by transaction. Written from the BIP,
//! the inscription and rune documentation and the property statements; no
//! cache, no packing, no commit.

pub mod inscr;
pub mod runes;

use {
  bitcoin::{OutPoint, ScriptBuf, Transaction, Txid},
  std::collections::BTreeMap,
};

pub type Range = (u64, u64);

pub const COIN: u64 = 100_000_000;
pub const HALVING: u32 = 210_000;

/// Block subsidy by the consensus rule.
pub fn subsidy(height: u32) -> u64 {
  let halvings = height / HALVING;
  if halvings >= 64 {
    0
  } else {
    (50 * COIN) >> halvings
  }
}

/// Number of sats mined before `height`.
pub fn first_sat(height: u32) -> u64 {
  let mut total = 0u64;
  let mut h = 0u32;
  while h < height {
    let epoch_end = (h / HALVING + 1) * HALVING;
    let n = epoch_end.min(height) - h;
    total += u64::from(n) * subsidy(h);
    h += n;
  }
  total
}

pub fn ranges_len(ranges: &[Range]) -> u64 {
  ranges.iter().map(|(a, b)| b - a).sum()
}

/// Merge adjacent contiguous ranges, so that comparisons are over sat
/// sequences and not over one particular way of cutting them.
pub fn normalize(ranges: &[Range]) -> Vec<Range> {
  let mut out: Vec<Range> = Vec::new();
  for &(a, b) in ranges {
    if a == b {
      continue;
    }
    if let Some(last) = out.last_mut()
      && last.1 == a
    {
      last.1 = b;
      continue;
    }
    out.push((a, b));
  }
  out
}

/// Take the first `n` sats of a range list; returns (taken, rest).
pub fn split_ranges(ranges: &[Range], n: u64) -> (Vec<Range>, Vec<Range>) {
  let mut taken = Vec::new();
  let mut rest = Vec::new();
  let mut need = n;
  for &(a, b) in ranges {
    if need == 0 {
      rest.push((a, b));
    } else if b - a <= need {
      taken.push((a, b));
      need -= b - a;
    } else {
      taken.push((a, a + need));
      rest.push((a + need, b));
      need = 0;
    }
  }
  assert_eq!(need, 0, "generator bug: not enough sats in ranges");
  (taken, rest)
}

/// The sat at `offset` in a range list.
pub fn sat_at(ranges: &[Range], offset: u64) -> Option<u64> {
  let mut o = offset;
  for &(a, b) in ranges {
    if o < b - a {
      return Some(a + o);
    }
    o -= b - a;
  }
  None
}

/// Offset of `sat` in a range list.
pub fn offset_of(ranges: &[Range], sat: u64) -> Option<u64> {
  let mut o = 0;
  for &(a, b) in ranges {
    if sat >= a && sat < b {
      return Some(o + sat - a);
    }
    o += b - a;
  }
  None
}

#[derive(Clone, Debug, PartialEq, Eq)]
pub struct Utxo {
  pub value: u64,
  pub script: ScriptBuf,
  pub ranges: Vec<Range>,
  pub height: u32,
  /// creation order on this branch
  pub seq: u64,
  pub coinbase: bool,
}

#[derive(Clone, Debug, Default)]
pub struct BlockCtx {
  pub height: u32,
  pub time: u32,
  /// fee sats of this block so far, in block order
  pub fee_ranges: Vec<Range>,
  pub tx_index: u32,
  pub txids: Vec<Txid>,
}

#[derive(Clone, Debug)]
pub struct Params {
  pub network: bitcoin::Network,
  pub jubilee_height: u32,
  pub first_inscription_height: u32,
  pub first_rune_height: u32,
}

#[derive(Clone, Debug)]
pub struct Model {
  pub params: Params,
  /// height of the last applied block
  pub height: Option<u32>,
  pub next_seq: u64,
  pub utxos: BTreeMap<OutPoint, Utxo>,
  /// sats in the lost-sats pseudo-output, in order of arrival
  pub lost: Vec<Range>,
  /// sats destroyed by duplicate txids
  pub destroyed: u64,
  pub block: BlockCtx,
  pub inscr: inscr::InscrModel,
  pub runes: runes::RuneModel,
  /// per height: header time
  pub times: Vec<u32>,
  /// rune events of the last applied block, in execution order
  pub last_rune_events: Vec<runes::RuneEvent>,
}

/// What a non-coinbase transaction did, for the sub-models.
pub struct TxFlow<'a> {
  pub tx: &'a Transaction,
  pub txid: Txid,
  /// per input: the spent output (None for a coinbase input)
  pub inputs: Vec<Option<(OutPoint, Utxo)>>,
  /// concatenated sat ranges of all inputs
  pub input_ranges: Vec<Range>,
}

impl Model {
  pub fn new(params: Params) -> Self {
    Self {
      params,
      height: None,
      next_seq: 0,
      utxos: BTreeMap::new(),
      lost: Vec::new(),
      destroyed: 0,
      block: BlockCtx::default(),
      inscr: inscr::InscrModel::default(),
      runes: runes::RuneModel::default(),
      times: Vec::new(),
      last_rune_events: Vec::new(),
    }
  }

  pub fn next_height(&self) -> u32 {
    self.height.map(|h| h + 1).unwrap_or(0)
  }

  pub fn begin_block(&mut self, height: u32, time: u32) {
    assert_eq!(height, self.next_height());
    self.block = BlockCtx {
      height,
      time,
      fee_ranges: Vec::new(),
      tx_index: 1,
      txids: Vec::new(),
    };
    self.inscr.begin_block(height);
    self.runes.begin_block(height, time);
  }

  fn add_outputs(&mut self, tx: &Transaction, txid: Txid, ranges: &[Range], coinbase: bool) -> Vec<Range> {
    let mut rest = ranges.to_vec();
    for (vout, out) in tx.output.iter().enumerate() {
      let (taken, r) = split_ranges(&rest, out.value.to_sat());
      rest = r;
      let outpoint = OutPoint {
        txid,
        vout: vout as u32,
      };
      let utxo = Utxo {
        value: out.value.to_sat(),
        script: out.script_pubkey.clone(),
        ranges: taken,
        height: self.block.height,
        seq: self.next_seq,
        coinbase,
      };
      self.next_seq += 1;
      if let Some(old) = self.utxos.insert(outpoint, utxo) {
        // duplicate txid: the old output and the sats in it are displaced
        self.destroyed += old.value;
      }
    }
    rest
  }

  /// Apply a non-coinbase transaction of the current block.
  pub fn apply_tx(&mut self, tx: &Transaction) {
    let txid = tx.compute_txid();
    let mut inputs = Vec::new();
    let mut input_ranges = Vec::new();
    for input in &tx.input {
      let utxo = self
        .utxos
        .remove(&input.previous_output)
        .unwrap_or_else(|| panic!("generator bug: input {} not unspent", input.previous_output));
      input_ranges.extend(utxo.ranges.iter().copied());
      inputs.push(Some((input.previous_output, utxo)));
    }
    let total_in = ranges_len(&input_ranges);
    let total_out: u64 = tx.output.iter().map(|o| o.value.to_sat()).sum();
    assert!(total_out <= total_in, "generator bug: outputs exceed inputs");
    assert!(!tx.input.is_empty() && !tx.output.is_empty());

    let flow = TxFlow {
      tx,
      txid,
      inputs,
      input_ranges: input_ranges.clone(),
    };

    // sub-models look at the transaction before the outputs exist
    let fee_offset = ranges_len(&self.block.fee_ranges);
    self.inscr.apply_tx(&self.params, &self.block, &flow, fee_offset);
    let tx_index = self.block.tx_index;
    self.runes.apply_tx(&self.params, &self.block, tx_index, &flow, &self.utxos);

    let fees = self.add_outputs(tx, txid, &input_ranges, false);
    self.block.fee_ranges.extend(fees);
    self.block.tx_index += 1;
    self.block.txids.push(txid);
  }

  /// Apply the coinbase and close the block.
  pub fn finish_block(&mut self, coinbase: &Transaction) {
    let height = self.block.height;
    let txid = coinbase.compute_txid();
    let mut ranges = Vec::new();
    let s = subsidy(height);
    if s > 0 {
      let start = first_sat(height);
      ranges.push((start, start + s));
    }
    ranges.extend(self.block.fee_ranges.iter().copied());
    let total_out: u64 = coinbase.output.iter().map(|o| o.value.to_sat()).sum();
    assert!(
      total_out <= ranges_len(&ranges),
      "generator bug: coinbase claims more than reward"
    );
    let flow = TxFlow {
      tx: coinbase,
      txid,
      inputs: vec![None],
      input_ranges: ranges.clone(),
    };
    self.runes.apply_tx(&self.params, &self.block, 0, &flow, &self.utxos);
    let lost = self.add_outputs(coinbase, txid, &ranges, true);
    self.lost.extend(lost);
    self.inscr.finish_block(&self.params, &self.block);
    self.last_rune_events = self.runes.finish_block_with(&self.params);
    self.height = Some(height);
    self.times.push(self.block.time);
  }

  /// Where a sat currently is: (outpoint, offset); the null outpoint for lost sats.
  pub fn locate(&self, sat: u64) -> Option<(OutPoint, u64)> {
    for (outpoint, utxo) in &self.utxos {
      if let Some(offset) = offset_of(&utxo.ranges, sat) {
        return Some((*outpoint, offset));
      }
    }
    offset_of(&self.lost, sat).map(|offset| (OutPoint::null(), offset))
  }

  pub fn utxos_by_seq(&self) -> Vec<(OutPoint, &Utxo)> {
    let mut v: Vec<_> = self.utxos.iter().map(|(o, u)| (*o, u)).collect();
    v.sort_by_key(|(_, u)| u.seq);
    v
  }
}
