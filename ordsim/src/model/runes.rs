//! Rune reference model, written from docs/src/runes/specification.md
//! ("Executing the Runestone") and the statements of C08–C11. The artifact
//! comes from `Runestone::decipher` (ordinals crate, a pure parser that is the
//! subject of a different property).

use {
  super::{BlockCtx, Params, TxFlow, Utxo},
  bitcoin::{OutPoint, Transaction, Txid},
  ordinals::{Artifact, Edict, Etching, Height, Rune, RuneId, Runestone, Terms},
  std::collections::BTreeMap,
};

#[derive(Clone, Debug, PartialEq, Eq)]
pub struct RuneInfo {
  pub id: RuneId,
  pub rune: Rune,
  pub number: u64,
  pub premine: u128,
  pub terms: Option<Terms>,
  pub mints: u128,
  pub burned: u128,
  pub etching: Txid,
  pub divisibility: u8,
  pub spacers: u32,
  pub symbol: Option<char>,
  pub turbo: bool,
  pub timestamp: u32,
  pub by_cenotaph: bool,
}

#[derive(Clone, Debug, PartialEq, Eq)]
pub enum RuneEvent {
  Etched { txid: Txid, id: RuneId },
  Minted { txid: Txid, id: RuneId, amount: u128 },
  Transferred { txid: Txid, id: RuneId, amount: u128, outpoint: OutPoint },
  Burned { txid: Txid, id: RuneId, amount: u128 },
}

#[derive(Clone, Debug)]
struct PendingTx {
  tx: Transaction,
  txid: Txid,
  tx_index: u32,
  /// per input: (spent output is pay-to-taproot, height it was created at)
  inputs: Vec<Option<(bool, u32)>>,
}

#[derive(Clone, Debug, Default)]
pub struct RuneModel {
  pub runes: BTreeMap<RuneId, RuneInfo>,
  pub by_name: BTreeMap<u128, RuneId>,
  pub balances: BTreeMap<OutPoint, BTreeMap<RuneId, u128>>,
  pub reserved: u64,
  pub count: u64,
  pending: Vec<PendingTx>,
  height: u32,
  time: u32,
  /// counters for evidence
  pub stats: BTreeMap<&'static str, u64>,
  pub seeded: bool,
}

fn is_op_return(tx: &Transaction, vout: usize) -> bool {
  tx.output[vout].script_pubkey.is_op_return()
}

impl RuneModel {
  fn bump(&mut self, name: &'static str) {
    *self.stats.entry(name).or_default() += 1;
  }

  pub fn begin_block(&mut self, height: u32, time: u32) {
    self.height = height;
    self.time = time;
    self.pending.clear();
  }

  /// Transactions are buffered and executed in block order (coinbase first)
  /// when the block is finished.
  pub fn apply_tx(
    &mut self,
    _params: &Params,
    _block: &BlockCtx,
    tx_index: u32,
    flow: &TxFlow,
    _utxos: &BTreeMap<OutPoint, Utxo>,
  ) {
    self.pending.push(PendingTx {
      tx: flow.tx.clone(),
      txid: flow.txid,
      tx_index,
      inputs: flow
        .inputs
        .iter()
        .map(|i| i.as_ref().map(|(_, u)| (u.script.is_p2tr(), u.height)))
        .collect(),
    });
  }

  pub fn seed_mainnet(&mut self) {
    // the hard-coded genesis rune of mainnet
    let id = RuneId { block: 1, tx: 0 };
    let rune = Rune(2055900680524219742);
    self.runes.insert(
      id,
      RuneInfo {
        id,
        rune,
        number: 0,
        premine: 0,
        terms: Some(Terms {
          amount: Some(1),
          cap: Some(u128::MAX),
          height: (Some(840_000), Some(1_050_000)),
          offset: (None, None),
        }),
        mints: 0,
        burned: 0,
        etching: bitcoin::hashes::Hash::all_zeros(),
        divisibility: 0,
        spacers: 128,
        symbol: Some('\u{29C9}'),
        turbo: true,
        timestamp: 0,
        by_cenotaph: false,
      },
    );
    self.by_name.insert(rune.0, id);
    self.count = 1;
    self.seeded = true;
  }

  pub fn finish_block_with(&mut self, params: &Params) -> Vec<RuneEvent> {
    let mut events = Vec::new();
    if self.height < params.first_rune_height {
      self.pending.clear();
      return events;
    }
    let mut pending = std::mem::take(&mut self.pending);
    pending.sort_by_key(|p| p.tx_index);
    for p in &pending {
      self.execute(params, p, &mut events);
    }
    events
  }

  pub fn finish_block(&mut self) {}

  fn mintable(info: &RuneInfo, height: u32) -> Option<u128> {
    let terms = info.terms?;
    let h = u128::from(height);
    let block = u128::from(info.id.block);
    let starts = [
      terms.height.0.map(u128::from),
      terms.offset.0.map(|o| block + u128::from(o)),
    ];
    let ends = [
      terms.height.1.map(u128::from),
      terms.offset.1.map(|o| block + u128::from(o)),
    ];
    if let Some(start) = starts.iter().flatten().max()
      && h < *start
    {
      return None;
    }
    if let Some(end) = ends.iter().flatten().min()
      && h >= *end
    {
      return None;
    }
    if info.mints >= terms.cap.unwrap_or(0) {
      return None;
    }
    Some(terms.amount.unwrap_or(0))
  }

  fn commits(&self, p: &PendingTx, rune: Rune) -> bool {
    let commitment = rune.commitment();
    for (input, spent) in p.tx.input.iter().zip(&p.inputs) {
      let Some((taproot, created)) = spent else {
        continue;
      };
      #[allow(deprecated)]
      let Some(script) = input.witness.tapscript() else {
        continue;
      };
      let mut found = false;
      for instruction in script.instructions() {
        let Ok(instruction) = instruction else {
          break;
        };
        if let Some(push) = instruction.push_bytes()
          && push.as_bytes() == commitment
        {
          found = true;
          break;
        }
      }
      if !found || !*taproot {
        continue;
      }
      let confirmations = self.height - created + 1;
      if confirmations >= u32::from(Runestone::COMMIT_CONFIRMATIONS) {
        return true;
      }
    }
    false
  }

  fn execute(&mut self, params: &Params, p: &PendingTx, events: &mut Vec<RuneEvent>) {
    let tx = &p.tx;
    let txid = p.txid;

    // runes carried by the inputs
    let mut unallocated: BTreeMap<RuneId, u128> = BTreeMap::new();
    for input in &tx.input {
      if let Some(balances) = self.balances.remove(&input.previous_output) {
        for (id, amount) in balances {
          *unallocated.entry(id).or_default() += amount;
        }
      }
    }

    let artifact = Runestone::decipher(tx);
    let mut allocated: Vec<BTreeMap<RuneId, u128>> = vec![BTreeMap::new(); tx.output.len()];
    let mut burned: BTreeMap<RuneId, u128> = BTreeMap::new();

    if let Some(artifact) = &artifact {
      // mint
      if let Some(id) = artifact.mint() {
        self.bump("mint.attempt");
        if let Some(info) = self.runes.get_mut(&id)
          && let Some(amount) = Self::mintable(info, self.height)
        {
          info.mints += 1;
          *unallocated.entry(id).or_default() += amount;
          events.push(RuneEvent::Minted { txid, id, amount });
          self.bump("mint.ok");
        }
      }

      // etching
      let etching: Option<(Option<Rune>, Option<Etching>)> = match artifact {
        Artifact::Runestone(r) => r.etching.map(|e| (e.rune, Some(e))),
        Artifact::Cenotaph(c) => c.etching.map(|r| (Some(r), None)),
      };

      let mut etched: Option<RuneId> = None;
      if let Some((name, fields)) = etching {
        self.bump("etch.attempt");
        let id = RuneId {
          block: self.height.into(),
          tx: p.tx_index,
        };
        let rune = match name {
          Some(rune) => {
            let minimum = Rune::minimum_at_height(params.network, Height(self.height));
            if rune < minimum {
              self.bump("etch.reject.minimum");
              None
            } else if rune.is_reserved() {
              self.bump("etch.reject.reserved");
              None
            } else if self.by_name.contains_key(&rune.0) {
              self.bump("etch.reject.taken");
              None
            } else if !self.commits(p, rune) {
              self.bump("etch.reject.commitment");
              None
            } else {
              Some(rune)
            }
          }
          None => {
            // only a valid runestone reaches here (a cenotaph's etching is
            // its name)
            let rune = Rune::reserved(self.height.into(), p.tx_index);
            self.reserved += 1;
            self.bump("etch.reserved_name");
            Some(rune)
          }
        };

        if let Some(rune) = rune {
          let number = self.count;
          self.count += 1;
          let info = match fields {
            Some(e) => RuneInfo {
              id,
              rune,
              number,
              premine: e.premine.unwrap_or(0),
              terms: e.terms,
              mints: 0,
              burned: 0,
              etching: txid,
              divisibility: e.divisibility.unwrap_or(0),
              spacers: e.spacers.unwrap_or(0),
              symbol: e.symbol,
              turbo: e.turbo,
              timestamp: self.time,
              by_cenotaph: false,
            },
            None => RuneInfo {
              id,
              rune,
              number,
              premine: 0,
              terms: None,
              mints: 0,
              burned: 0,
              etching: txid,
              divisibility: 0,
              spacers: 0,
              symbol: None,
              turbo: false,
              timestamp: self.time,
              by_cenotaph: true,
            },
          };
          if let Some(e) = fields {
            *unallocated.entry(id).or_default() += e.premine.unwrap_or(0);
          }
          self.runes.insert(id, info);
          self.by_name.insert(rune.0, id);
          events.push(RuneEvent::Etched { txid, id });
          etched = Some(id);
          self.bump("etch.ok");
        }
      }

      match artifact {
        Artifact::Runestone(runestone) => {
          for Edict { id, amount, output } in runestone.edicts.iter().copied() {
            let output = output as usize;
            assert!(output <= tx.output.len(), "decipher lets no such edict through");
            let id = if id == RuneId::default() {
              match etched {
                Some(id) => id,
                None => continue,
              }
            } else {
              id
            };
            let Some(balance) = unallocated.get_mut(&id) else {
              continue;
            };
            if output == tx.output.len() {
              let destinations: Vec<usize> = (0..tx.output.len())
                .filter(|v| !is_op_return(tx, *v))
                .collect();
              if destinations.is_empty() {
                continue;
              }
              if amount == 0 {
                let n = destinations.len() as u128;
                let each = *balance / n;
                let remainder = (*balance % n) as usize;
                for (i, v) in destinations.iter().enumerate() {
                  let a = if i < remainder { each + 1 } else { each };
                  if a > 0 {
                    *balance -= a;
                    *allocated[*v].entry(id).or_default() += a;
                  }
                }
              } else {
                for v in destinations {
                  let a = amount.min(*balance);
                  if a > 0 {
                    *balance -= a;
                    *allocated[v].entry(id).or_default() += a;
                  }
                }
              }
            } else {
              let a = if amount == 0 {
                *balance
              } else {
                amount.min(*balance)
              };
              if a > 0 {
                *balance -= a;
                *allocated[output].entry(id).or_default() += a;
              }
            }
          }
        }
        Artifact::Cenotaph(_) => {}
      }
    }

    match &artifact {
      Some(Artifact::Cenotaph(_)) => {
        self.bump("cenotaph");
        for (id, amount) in unallocated {
          if amount > 0 {
            *burned.entry(id).or_default() += amount;
          }
        }
      }
      other => {
        let pointer = match other {
          Some(Artifact::Runestone(r)) => r.pointer,
          _ => None,
        };
        let destination = match pointer {
          Some(p) => Some(p as usize),
          None => (0..tx.output.len()).find(|v| !is_op_return(tx, *v)),
        };
        match destination {
          Some(v) => {
            for (id, amount) in unallocated {
              if amount > 0 {
                *allocated[v].entry(id).or_default() += amount;
              }
            }
          }
          None => {
            for (id, amount) in unallocated {
              if amount > 0 {
                *burned.entry(id).or_default() += amount;
              }
            }
          }
        }
      }
    }

    for (vout, balances) in allocated.into_iter().enumerate() {
      if balances.is_empty() {
        continue;
      }
      if is_op_return(tx, vout) {
        self.bump("burn.op_return");
        for (id, amount) in balances {
          *burned.entry(id).or_default() += amount;
        }
        continue;
      }
      let outpoint = OutPoint {
        txid,
        vout: vout as u32,
      };
      for (id, amount) in &balances {
        events.push(RuneEvent::Transferred {
          txid,
          id: *id,
          amount: *amount,
          outpoint,
        });
      }
      self.balances.insert(outpoint, balances);
    }

    for (id, amount) in burned {
      if amount == 0 {
        continue;
      }
      self.runes.get_mut(&id).expect("burned rune exists").burned += amount;
      events.push(RuneEvent::Burned { txid, id, amount });
    }
  }

  pub fn known_ids(&self) -> Vec<RuneId> {
    let mut ids: Vec<_> = self.runes.values().map(|r| (r.number, r.id)).collect();
    ids.sort();
    ids.into_iter().map(|(_, id)| id).collect()
  }
}
