//! Inscription reference model: an inscription is a label on a sat.
//!
//! At reveal the model computes the sat from the model's own input ranges and
//! the pointer rule, and never does offset arithmetic again: the inscription
//! is wherever the sat model says its sat is. Envelopes are obtained with
//! ord's own parser (C04 defines the count in terms of that parser).

use {
  super::{BlockCtx, Params, TxFlow, sat_at},
  bitcoin::Txid,
  ord::{InscriptionId, ParsedEnvelope},
  std::collections::BTreeSet,
};

#[derive(Clone, Debug)]
pub struct Inscr {
  pub id: InscriptionId,
  pub height: u32,
  /// `None` = unbound
  pub sat: Option<u64>,
  /// parents named by the envelope (after decoding), in order
  pub named_parents: Vec<InscriptionId>,
  /// inscriptions spent or revealed by the reveal transaction
  pub potential_parents: BTreeSet<InscriptionId>,
  /// envelope is first in the first input, no pointer, no pushnum, no
  /// stutter, no duplicate / incomplete / unrecognised-even field
  pub clean_envelope: bool,
  /// an unrecognised even field or a zero-value input
  pub unbound_reason: Option<&'static str>,
  /// the sat went to fees in the reveal transaction itself
  pub fee_spent_at_reveal: bool,
  pub has_pointer: bool,
  pub delegate: Option<InscriptionId>,
  pub hidden: bool,
  pub envelope_input: u32,
}

#[derive(Clone, Debug, Default)]
pub struct InscrModel {
  pub list: Vec<Inscr>,
  /// envelopes found by ord's parser in non-coinbase transactions at or after
  /// the first inscription height
  pub envelope_count: u64,
  height: u32,
}

impl InscrModel {
  pub fn begin_block(&mut self, height: u32) {
    self.height = height;
  }

  pub fn apply_tx(&mut self, params: &Params, block: &BlockCtx, flow: &TxFlow, _fee_offset: u64) {
    if block.height < params.first_inscription_height {
      return;
    }

    let envelopes = ParsedEnvelope::from_transaction(flow.tx);
    if envelopes.is_empty() {
      return;
    }
    self.envelope_count += envelopes.len() as u64;

    let total_out: u64 = flow.tx.output.iter().map(|o| o.value.to_sat()).sum();

    // inscriptions carried by the inputs (by sat)
    let mut potential: BTreeSet<InscriptionId> = BTreeSet::new();
    for i in &self.list {
      if let Some(sat) = i.sat
        && super::offset_of(&flow.input_ranges, sat).is_some()
      {
        potential.insert(i.id);
      }
    }
    for index in 0..envelopes.len() {
      potential.insert(InscriptionId {
        txid: flow.txid,
        index: index as u32,
      });
    }

    let mut input_start = Vec::new();
    let mut acc = 0u64;
    for input in &flow.inputs {
      input_start.push(acc);
      acc += input.as_ref().map(|(_, u)| u.value).unwrap_or(0);
    }

    for (index, env) in envelopes.iter().enumerate() {
      let input = env.input as usize;
      let input_value = flow.inputs[input].as_ref().map(|(_, u)| u.value).unwrap_or(0);
      let payload = &env.payload;

      let unbound_reason = if payload.unrecognized_even_field {
        Some("unrecognized even field")
      } else if input_value == 0 {
        Some("zero-value input")
      } else {
        None
      };

      let mut offset = input_start[input];
      if let Some(pointer) = payload.pointer()
        && pointer < total_out
      {
        offset = pointer;
      }

      let sat = if unbound_reason.is_some() {
        None
      } else {
        Some(sat_at(&flow.input_ranges, offset).expect("offset inside inputs"))
      };

      let clean_envelope = env.input == 0
        && env.offset == 0
        && payload.pointer.is_none()
        && !env.pushnum
        && !env.stutter
        && !payload.duplicate_field
        && !payload.incomplete_field
        && !payload.unrecognized_even_field;

      self.list.push(Inscr {
        id: InscriptionId {
          txid: flow.txid,
          index: index as u32,
        },
        height: block.height,
        sat,
        named_parents: payload.parents(),
        potential_parents: potential.clone(),
        clean_envelope,
        unbound_reason,
        fee_spent_at_reveal: sat.is_some() && offset >= total_out,
        has_pointer: payload.pointer.is_some(),
        delegate: payload.delegate(),
        hidden: payload.hidden(),
        envelope_input: env.input,
      });
    }
  }

  pub fn finish_block(&mut self, _params: &Params, _block: &BlockCtx) {}

  pub fn known_ids(&self) -> Vec<InscriptionId> {
    self.list.iter().map(|i| i.id).collect()
  }

  pub fn txid_of(&self, k: usize) -> Option<Txid> {
    self.list.get(k).map(|i| i.id.txid)
  }
}
