//! C18 (JSON and recursive endpoints agree with the index) and C19 (content is
//! served faithfully and sandboxed), checked at quiescent points by driving
//! the real router.

use {
  crate::{
    check::{Ctx, RunReport, fault_free_update_ok, finish_report},
    exec::Exec,
    gen_::*,
    model::Model,
    oracle::{self, Violation, unbound_outpoint, v},
    rng::Rng,
    scenario::*,
    web::{ServerOpts, Web},
  },
  bitcoin::OutPoint,
  ord::{InscriptionId, ParsedEnvelope},
  ordinals::Charm,
  serde_json::{Value, json},
  std::collections::BTreeMap,
};

fn explorer_features() -> Features {
  Features {
    envelopes: 65,
    env_flaws: 15,
    pointers: 20,
    parents: 35,
    delegates: 35,
    move_inscriptions: 40,
    runestones: 25,
    etchings: 50,
    mints: 40,
    edicts: 40,
    raw_garbage: 0,
    coinbase_dup: 0,
    ..everything_features()
  }
}

pub fn gen_explorer(property: &str, seed: u64, thorough: bool) -> Scenario {
  let root = Rng::new(seed);
  let mut crng = root.fork("config");
  let mut wrng = root.fork("workload");
  let mut srng = root.fork("schedule");
  let mut config = gen_config(&mut crng);
  config.index_sats = crng.chance(2, 3);
  config.index_addresses = crng.chance(1, 2);
  config.index_runes = crng.chance(2, 3);
  config.index_transactions = crng.chance(1, 2);
  config.chain = if crng.chance(1, 4) {
    ChainKind::Testnet4
  } else {
    ChainKind::Regtest
  };
  let mut f = Features::swarm(&explorer_features(), &mut wrng);
  if property == "C19" {
    f.envelopes = f.envelopes.max(50);
    f.delegates = f.delegates.max(30);
  }
  let n = 5 + wrng.usize(if thorough { 40 } else { 22 });
  let mut blocks = gen_chain(&mut wrng, &f, n);
  if property == "C19" {
    // content-specific envelope shapes
    for b in &mut blocks {
      for tx in &mut b.txs {
        for i in &mut tx.inputs {
          if let WitnessSpec::Envelopes(envs) = &mut i.witness {
            for e in envs.iter_mut() {
              if e.body.as_ref().is_some_and(|b| b.len() < 12) && wrng.chance(2, 3) {
                let n = 24 + wrng.usize(80);
                e.body = Some(wrng.bytes(n));
              }
              match wrng.below(10) {
                0 => {
                  // valid brotli
                  let plain = wrng.bytes(200);
                  let mut out = Vec::new();
                  {
                    let mut w = brotli::CompressorWriter::new(&mut out, 4096, 5, 22);
                    std::io::Write::write_all(&mut w, &plain).unwrap();
                  }
                  e.body = Some(out);
                  e.content_encoding = Some(b"br".to_vec());
                }
                1 => e.content_encoding = Some(b"br".to_vec()),
                2 => e.content_encoding = Some(b"gzip".to_vec()),
                3 => e.content_type = Some(b"text/plain\x00bad".to_vec()),
                _ => {}
              }
            }
          }
        }
      }
    }
  }
  let ops = schedule_ops(&mut srng, blocks, false, false, true);
  let server = ServerOpts {
    csp_origin: if crng.chance(1, 2) {
      Some("https://ordinals.example".into())
    } else {
      None
    },
    decompress: crng.chance(1, 2),
    hidden: (0..crng.below(4)).map(|_| crng.below(64) as u32).collect(),
  };
  Scenario {
    seed,
    profile: format!("{property}/explorer"),
    config,
    ops,
    server: Some(server),
  }
}

fn jstr(v: &Value) -> String {
  match v {
    Value::String(s) => s.clone(),
    other => other.to_string(),
  }
}

fn charms_json(bits: u16) -> Value {
  serde_json::to_value(Charm::charms(bits)).unwrap()
}

/// id, sequence number, number, charms, fee, height, sat, parents, satpoint
type EntryRow = (
  InscriptionId,
  u32,
  i32,
  u16,
  u64,
  u32,
  Option<u64>,
  Vec<u32>,
  Option<ordinals::SatPoint>,
);

struct View<'a> {
  ex: &'a Exec,
  model: &'a Model,
  entries: Vec<EntryRow>,
  /// the index has every block the node has
  at_tip: bool,
}

fn address_of(script: &bitcoin::Script, network: bitcoin::Network) -> Option<String> {
  bitcoin::Address::from_script(script, network).ok().map(|a| a.to_string())
}

fn c18(web: &mut Web, view: &View, network: bitcoin::Network, rng: &mut Rng, out: &mut Vec<Violation>) {
  const P: &str = "C18";
  let index = view.ex.index();
  let m = view.model;
  let by_seq: BTreeMap<u32, InscriptionId> = view.entries.iter().map(|e| (e.1, e.0)).collect();

  // ------------------------------------------------------------ inscriptions
  for (id, seq, number, charms, fee, height, sat, parents, satpoint) in &view.entries {
    let Some(satpoint) = satpoint else {
      continue;
    };
    let reply = web.get_json(&format!("/inscription/{id}"));
    let Some(j) = reply.json().filter(|_| reply.status.is_success()) else {
      out.push(v(P, "inscription_route_failed", format!("/inscription/{id} -> {}", reply.status)));
      continue;
    };
    let mut bits = *charms;
    if satpoint.outpoint == OutPoint::null() {
      bits |= 1 << (Charm::Lost as u16);
    }
    let utxo = m.utxos.get(&satpoint.outpoint);
    let special = satpoint.outpoint == OutPoint::null() || satpoint.outpoint == unbound_outpoint();
    let want_value = if special { None } else { utxo.map(|u| u.value) };
    let want_address = if special {
      None
    } else {
      utxo.and_then(|u| address_of(&u.script, network))
    };
    let checks: Vec<(&str, Value, Value)> = vec![
      ("id", j["id"].clone(), json!(id.to_string())),
      ("number", j["number"].clone(), json!(number)),
      ("fee", j["fee"].clone(), json!(fee)),
      ("height", j["height"].clone(), json!(height)),
      ("sat", j["sat"].clone(), json!(sat)),
      ("satpoint", j["satpoint"].clone(), json!(satpoint.to_string())),
      ("charms", j["charms"].clone(), charms_json(bits)),
      ("value", j["value"].clone(), json!(want_value)),
      ("address", j["address"].clone(), json!(want_address)),
      (
        "parents",
        j["parents"].clone(),
        json!(
          parents
            .iter()
            .take(4)
            .filter_map(|p| by_seq.get(p))
            .map(|i| i.to_string())
            .collect::<Vec<_>>()
        ),
      ),
      (
        "previous",
        j["previous"].clone(),
        json!(seq.checked_sub(1).and_then(|p| by_seq.get(&p)).map(|i| i.to_string())),
      ),
      ("next", j["next"].clone(), json!(by_seq.get(&(seq + 1)).map(|i| i.to_string()))),
    ];
    for (field, got, want) in checks {
      if got != want {
        out.push(v(
          P,
          &format!("inscription_json.{field}"),
          format!("/inscription/{id}: {field} = {got}, stored state says {want}"),
        ));
      }
    }
    // by number
    let reply = web.get_json(&format!("/inscription/{number}"));
    if reply.json().map(|j| jstr(&j["id"])) != Some(id.to_string()) {
      out.push(v(P, "inscription_by_number", format!("/inscription/{number} does not return {id}")));
    }
    // recursive
    let reply = web.get(&format!("/r/inscription/{id}"), &[]);
    match reply.json() {
      Some(j) if reply.status.is_success() => {
        for (field, got, want) in [
          ("number", j["number"].clone(), json!(number)),
          ("output", j["output"].clone(), json!(satpoint.outpoint.to_string())),
          ("satpoint", j["satpoint"].clone(), json!(satpoint.to_string())),
          ("sat", j["sat"].clone(), json!(sat)),
          ("value", j["value"].clone(), json!(want_value)),
          ("address", j["address"].clone(), json!(want_address)),
          ("fee", j["fee"].clone(), json!(fee)),
          ("height", j["height"].clone(), json!(height)),
        ] {
          if got != want {
            out.push(v(
              P,
              &format!("r_inscription.{field}"),
              format!("/r/inscription/{id}: {field} = {got}, stored state says {want}"),
            ));
          }
        }
      }
      _ => out.push(v(P, "r_inscription_failed", format!("/r/inscription/{id} -> {}", reply.status))),
    }
  }

  // ------------------------------------------------- children / parents pages
  for (id, seq, ..) in &view.entries {
    let mut want = Vec::new();
    let mut page = 0;
    loop {
      let Ok((ids, more)) = index.get_children_by_sequence_number_paginated(*seq, 100, page) else {
        break;
      };
      want.extend(ids);
      if !more {
        break;
      }
      page += 1;
    }
    let mut got = Vec::new();
    let mut page = 0;
    loop {
      let reply = web.get(&format!("/r/children/{id}/{page}"), &[]);
      let Some(j) = reply.json() else {
        if !want.is_empty() {
          out.push(v(P, "children_route_failed", format!("/r/children/{id}/{page} -> {}", reply.status)));
        }
        break;
      };
      for x in j["ids"].as_array().cloned().unwrap_or_default() {
        got.push(jstr(&x));
      }
      if j["more"] != json!(true) {
        break;
      }
      page += 1;
    }
    let want: Vec<String> = want.iter().map(|i| i.to_string()).collect();
    if got != want {
      out.push(v(P, "children_listing", format!("/r/children/{id}: {got:?}, stored {want:?}")));
    }
  }
  for (id, _seq, _, _, _, _, _, parents, _) in &view.entries {
    if parents.is_empty() {
      continue;
    }
    let want: Vec<String> = parents
      .iter()
      .filter_map(|p| by_seq.get(p))
      .map(|i| i.to_string())
      .collect();
    let mut got = Vec::new();
    let mut page = 0;
    loop {
      let reply = web.get(&format!("/r/parents/{id}/{page}"), &[]);
      let Some(j) = reply.json() else {
        out.push(v(P, "parents_route_failed", format!("/r/parents/{id}/{page} -> {}", reply.status)));
        break;
      };
      for x in j["ids"].as_array().cloned().unwrap_or_default() {
        got.push(jstr(&x));
      }
      if j["more"] != json!(true) {
        break;
      }
      page += 1;
    }
    if got != want {
      out.push(v(P, "parents_listing", format!("/r/parents/{id}: {got:?}, stored {want:?}")));
    }
  }

  // ------------------------------------------------------------ blocks
  let tip = m.height.unwrap_or(0);
  for h in 0..=tip {
    let want: Vec<String> = view
      .entries
      .iter()
      .filter(|e| e.5 == h)
      .map(|e| e.0.to_string())
      .collect();
    if want.is_empty() && !rng.chance(1, 6) {
      continue;
    }
    let mut got = Vec::new();
    let mut page = 0;
    loop {
      let reply = web.get_json(&format!("/inscriptions/block/{h}/{page}"));
      let Some(j) = reply.json() else {
        out.push(v(P, "block_listing_failed", format!("/inscriptions/block/{h}/{page} -> {}", reply.status)));
        break;
      };
      for x in j["ids"].as_array().cloned().unwrap_or_default() {
        got.push(jstr(&x));
      }
      if j["more"] != json!(true) {
        break;
      }
      page += 1;
    }
    if got != want {
      out.push(v(
        P,
        "block_listing",
        format!("/inscriptions/block/{h}: {got:?}, inscriptions created at that height in creation order {want:?}"),
      ));
    }
  }

  // ------------------------------------------------------------ sats
  if view.ex.config.index_sats {
    let mut by_sat: BTreeMap<u64, Vec<(u32, InscriptionId)>> = BTreeMap::new();
    for e in &view.entries {
      if let Some(s) = e.6 {
        by_sat.entry(s).or_default().push((e.1, e.0));
      }
    }
    for (sat, list) in &mut by_sat {
      list.sort();
      let ids: Vec<String> = list.iter().map(|(_, i)| i.to_string()).collect();
      let reply = web.get_json(&format!("/sat/{sat}"));
      match reply.json() {
        Some(j) if reply.status.is_success() => {
          let got: Vec<String> = j["inscriptions"]
            .as_array()
            .cloned()
            .unwrap_or_default()
            .iter()
            .map(jstr)
            .collect();
          if got != ids {
            out.push(v(P, "sat_json.inscriptions", format!("/sat/{sat}: {got:?}, stored {ids:?}")));
          }
          let want = m.locate(*sat).map(|(o, off)| format!("{o}:{off}"));
          if j["satpoint"] != json!(want) {
            out.push(v(
              P,
              "sat_json.satpoint",
              format!("/sat/{sat}: satpoint {}, the sat is at {want:?}", j["satpoint"]),
            ));
          }
        }
        _ => out.push(v(P, "sat_route_failed", format!("/sat/{sat} -> {}", reply.status))),
      }
      let reply = web.get(&format!("/r/sat/{sat}"), &[]);
      if let Some(j) = reply.json() {
        let got: Vec<String> = j["ids"].as_array().cloned().unwrap_or_default().iter().map(jstr).collect();
        if got != ids[..ids.len().min(100)] {
          out.push(v(P, "r_sat.ids", format!("/r/sat/{sat}: {got:?}, stored {ids:?}")));
        }
      }
      let n = ids.len() as i64;
      for k in -(n + 1)..=n {
        let reply = web.get(&format!("/r/sat/{sat}/at/{k}"), &[]);
        let want = if k >= 0 {
          ids.get(k as usize).cloned()
        } else {
          let back = (-k) as usize;
          if back <= ids.len() {
            Some(ids[ids.len() - back].clone())
          } else {
            None
          }
        };
        let got = reply.json().and_then(|j| j["id"].as_str().map(|s| s.to_string()));
        if got != want {
          out.push(v(
            P,
            "r_sat_at_index",
            format!("/r/sat/{sat}/at/{k}: {got:?}, creation order {ids:?} says {want:?}"),
          ));
        }
      }
    }
  }

  // ------------------------------------------------------------ outputs
  let mut outpoints: Vec<OutPoint> = Vec::new();
  for e in &view.entries {
    if let Some(sp) = e.8
      && !outpoints.contains(&sp.outpoint)
      && sp.outpoint != unbound_outpoint()
      && sp.outpoint != OutPoint::null()
    {
      outpoints.push(sp.outpoint);
    }
  }
  for o in m.runes.balances.keys() {
    if !outpoints.contains(o) {
      outpoints.push(*o);
    }
  }
  let all: Vec<OutPoint> = m.utxos.keys().copied().collect();
  for _ in 0..12 {
    if all.is_empty() {
      break;
    }
    let o = *rng.pick(&all);
    if !outpoints.contains(&o) {
      outpoints.push(o);
    }
  }
  for o in &outpoints {
    let reply = web.get_json(&format!("/output/{o}"));
    let Some(j) = reply.json().filter(|_| reply.status.is_success()) else {
      out.push(v(P, "output_route_failed", format!("/output/{o} -> {}", reply.status)));
      continue;
    };
    let mut want: Vec<String> = view
      .entries
      .iter()
      .filter(|e| e.8.is_some_and(|sp| sp.outpoint == *o))
      .map(|e| e.0.to_string())
      .collect();
    let mut got: Vec<String> = j["inscriptions"]
      .as_array()
      .cloned()
      .unwrap_or_default()
      .iter()
      .map(jstr)
      .collect();
    got.sort();
    want.sort();
    if got != want {
      out.push(v(P, "output_json.inscriptions", format!("/output/{o}: {got:?}, located there {want:?}")));
    }
    if let Some(u) = m.utxos.get(o) {
      if j["value"] != json!(u.value) {
        out.push(v(
          P,
          "output_json.value",
          format!("/output/{o}: value {}, created with {}", j["value"], u.value),
        ));
      }
      // provably unspendable outputs are not in the node's UTXO set and are
      // reported as spent; the property says nothing about them
      // (and whether an output is spent is asked of the node, which may be ahead)
      if j["spent"] != json!(false) && !u.script.is_op_return() && view.at_tip {
        out.push(v(P, "output_json.spent", format!("/output/{o}: reported spent but it is unspent")));
      }
      if view.ex.config.index_sats {
        let want = json!(crate::model::normalize(&u.ranges));
        let got: Vec<(u64, u64)> = serde_json::from_value(j["sat_ranges"].clone()).unwrap_or_default();
        if json!(crate::model::normalize(&got)) != want {
          out.push(v(P, "output_json.sat_ranges", format!("/output/{o}: {} vs {want}", j["sat_ranges"])));
        }
      }
    }
    if view.ex.config.index_runes {
      let want: BTreeMap<String, u128> = m
        .runes
        .balances
        .get(o)
        .map(|b| {
          b.iter()
            .map(|(id, a)| {
              let info = &m.runes.runes[id];
              (
                ordinals::SpacedRune {
                  rune: info.rune,
                  spacers: info.spacers,
                }
                .to_string(),
                *a,
              )
            })
            .collect()
        })
        .unwrap_or_default();
      let got: BTreeMap<String, u128> = serde_json::from_slice::<ord::api::Output>(&reply.body)
        .ok()
        .and_then(|o| o.runes)
        .map(|r| r.into_iter().map(|(k, pile)| (k.to_string(), pile.amount)).collect())
        .unwrap_or_default();
      if got != want {
        out.push(v(P, "output_json.runes", format!("/output/{o}: {got:?}, balances {want:?}")));
      }
    }
  }

  // ------------------------------------------------------------ chain facts
  let reply = web.get("/blockheight", &[]);
  if String::from_utf8_lossy(&reply.body).trim() != tip.to_string() {
    out.push(v(
      P,
      "blockheight",
      format!("/blockheight = {:?}, index at {tip}", String::from_utf8_lossy(&reply.body)),
    ));
  }
}

fn allowed_csp_source(token: &str, origin: Option<&str>) -> bool {
  const KEYWORDS: &[&str] = &["'self'", "'unsafe-eval'", "'unsafe-inline'", "data:", "blob:"];
  const PATHS: &[&str] = &[
    "/content/",
    "/blockheight",
    "/blockhash",
    "/blockhash/",
    "/blocktime",
    "/r/",
  ];
  if KEYWORDS.contains(&token) {
    return true;
  }
  let prefix = match origin {
    Some(o) => o.to_string(),
    None => "*:*".to_string(),
  };
  PATHS.iter().any(|p| token == format!("{prefix}{p}"))
}

fn contains(hay: &[u8], needle: &[u8]) -> bool {
  needle.len() >= 12 && hay.windows(needle.len()).any(|w| w == needle)
}

fn no_csp(path: &str, reply: &crate::web::Reply, out: &mut Vec<Violation>) {
  if reply.headers_all("content-security-policy").is_empty() {
    out.push(v(
      "C19",
      "no_csp",
      format!("{path} -> {} without a Content-Security-Policy header", reply.status),
    ));
  }
}

fn content_csp(route: &str, reply: &crate::web::Reply, origin: Option<&str>, out: &mut Vec<Violation>) {
  let csps = reply.headers_all("content-security-policy");
  if csps.is_empty() {
    return;
  }
  // several policies are all enforced: it is enough that one of them confines
  // every source to same-origin / configured-origin content and recursive paths
  let confined = csps.iter().any(|csp| {
    csp.split(';').all(|directive| {
      let mut parts = directive.split_whitespace();
      match parts.next() {
        None => true,
        Some(_name) => parts.all(|t| allowed_csp_source(t, origin)),
      }
    })
  });
  if !confined {
    out.push(v("C19", "content_csp_too_wide", format!("{route}: {csps:?}")));
  }
}

fn c19(
  web: &mut Web,
  view: &View,
  opts: &ServerOpts,
  hidden: &[InscriptionId],
  payloads: &BTreeMap<InscriptionId, ord::Inscription>,
  out: &mut Vec<Violation>,
) {
  const P: &str = "C19";
  let origin = opts.csp_origin.as_deref();

  let hidden_bodies: Vec<(InscriptionId, Vec<u8>)> = hidden
    .iter()
    .filter_map(|id| payloads.get(id).and_then(|p| p.body.clone()).map(|b| (*id, b)))
    .collect();

  for (id, ..) in &view.entries {
    let Some(own) = payloads.get(id) else {
      continue;
    };
    let delegate = own.delegate();
    let effective = match delegate {
      Some(d) => payloads.get(&d),
      None => Some(own),
    };

    for route in ["content", "undelegated"] {
      let (path, expect) = if route == "content" {
        (format!("/content/{id}"), effective)
      } else {
        (format!("/r/undelegated-content/{id}"), Some(own))
      };
      // plain request
      let reply = web.get(&path, &[]);
      no_csp(&path, &reply, out);
      // hidden content is never served
      for (hid, body) in &hidden_bodies {
        if contains(&reply.body, body) {
          out.push(v(
            P,
            "hidden_content_served",
            format!(
              "{path} serves the body of hidden inscription {hid}{}",
              if delegate == Some(*hid) && route == "content" {
                " (through delegation)"
              } else {
                ""
              }
            ),
          ));
        }
      }
      if hidden.contains(id) {
        continue;
      }
      if route == "content" && delegate.is_some_and(|d| hidden.contains(&d)) {
        continue;
      }
      let Some(expect) = expect else {
        // delegate does not exist
        if reply.status.is_success() {
          out.push(v(
            P,
            "missing_delegate_served",
            format!("{path} -> {} although the delegate does not exist", reply.status),
          ));
        }
        continue;
      };
      let Some(body) = &expect.body else {
        if reply.status.is_success() {
          out.push(v(
            P,
            "bodyless_served",
            format!("{path} -> {} although there is no body", reply.status),
          ));
        }
        continue;
      };
      let encoding = expect
        .content_encoding
        .as_ref()
        .and_then(|e| std::str::from_utf8(e).ok())
        .filter(|e| http::HeaderValue::from_str(e).is_ok())
        .map(|e| e.to_string());
      let want_type = expect
        .content_type()
        .filter(|t| t.parse::<http::HeaderValue>().is_ok())
        .unwrap_or("application/octet-stream")
        .to_string();
      match &encoding {
        None => {
          if !reply.status.is_success() {
            out.push(v(P, "content_not_served", format!("{path} -> {}", reply.status)));
            continue;
          }
          if &reply.body != body {
            out.push(v(
              P,
              "wrong_body",
              format!("{path}: {} bytes served, body has {} bytes", reply.body.len(), body.len()),
            ));
          }
          if reply.header("content-type").as_deref() != Some(want_type.as_str()) {
            out.push(v(
              P,
              "wrong_content_type",
              format!("{path}: content-type {:?}, stored {want_type:?}", reply.header("content-type")),
            ));
          }
          content_csp(&path, &reply, origin, out);
        }
        Some(enc) => {
          // not accepted by the client
          let is_br = enc == "br";
          if opts.decompress && is_br {
            let mut plain = Vec::new();
            let ok = std::io::Read::read_to_end(&mut brotli::Decompressor::new(body.as_slice(), 4096), &mut plain)
              .is_ok();
            if ok {
              if reply.status.is_success() && reply.header("content-type").as_deref() != Some(want_type.as_str()) {
                out.push(v(
                  P,
                  "wrong_content_type",
                  format!(
                    "{path} (decompressed): content-type {:?}, stored {want_type:?}",
                    reply.header("content-type")
                  ),
                ));
              }
              if !reply.status.is_success() || reply.body != plain {
                out.push(v(
                  P,
                  "not_decompressed",
                  format!(
                    "{path}: {} with {} bytes, decompressed body has {}",
                    reply.status,
                    reply.body.len(),
                    plain.len()
                  ),
                ));
              }
            } else if reply.status.is_success() && contains(&reply.body, body) {
              out.push(v(
                P,
                "undecodable_served_raw",
                format!("{path}: raw body served without content-encoding"),
              ));
            }
          } else if reply.status != http::StatusCode::NOT_ACCEPTABLE {
            out.push(v(
              P,
              "encoding_not_refused",
              format!("{path}: content-encoding {enc} not accepted by the client, reply {}", reply.status),
            ));
          }
          // accepted by the client: passed through
          let reply = web.get(&path, &[("accept-encoding", enc.as_str())]);
          if reply.status.is_success() && reply.header("content-type").as_deref() != Some(want_type.as_str()) {
            out.push(v(
              P,
              "wrong_content_type",
              format!(
                "{path} (encoding passed through): content-type {:?}, stored {want_type:?}",
                reply.header("content-type")
              ),
            ));
          }
          if !reply.status.is_success()
            || &reply.body != body
            || reply.header("content-encoding").as_deref() != Some(enc.as_str())
          {
            out.push(v(
              P,
              "encoding_not_passed_through",
              format!(
                "{path} with accept-encoding {enc}: {} content-encoding {:?} {} bytes (body {} bytes)",
                reply.status,
                reply.header("content-encoding"),
                reply.body.len(),
                body.len()
              ),
            ));
          }
          content_csp(&path, &reply, origin, out);
        }
      }
    }

    // preview never leaks a hidden body and always has a policy
    let path = format!("/preview/{id}");
    let reply = web.get(&path, &[]);
    no_csp(&path, &reply, out);
    for (hid, body) in &hidden_bodies {
      if contains(&reply.body, body) {
        out.push(v(
          P,
          "hidden_content_served",
          format!("{path} serves the body of hidden inscription {hid}"),
        ));
      }
    }
  }

  // content addressed relative to the newest inscription on a sat
  if view.ex.config.index_sats {
    let mut by_sat: BTreeMap<u64, Vec<(u32, InscriptionId)>> = BTreeMap::new();
    for e in &view.entries {
      if let Some(s) = e.6 {
        by_sat.entry(s).or_default().push((e.1, e.0));
      }
    }
    for (sat, list) in by_sat.iter_mut().take(40) {
      list.sort();
      for k in [-1i64, -(list.len() as i64), 0, list.len() as i64 - 1] {
        let path = format!("/r/sat/{sat}/at/{k}/content");
        let reply = web.get(&path, &[]);
        no_csp(&path, &reply, out);
        let cache = reply.header("cache-control").unwrap_or_default();
        if k < 0 && reply.status.is_success() && cache.contains("immutable") {
          out.push(v(P, "relative_content_immutable", format!("{path}: cache-control {cache:?}")));
        }
        for (hid, body) in &hidden_bodies {
          if contains(&reply.body, body) {
            out.push(v(
              P,
              "hidden_content_served",
              format!("{path} serves the body of hidden inscription {hid}"),
            ));
          }
        }
      }
    }
  }

  // every other response carries a policy too
  let first = view.entries.first().map(|e| e.0.to_string()).unwrap_or_default();
  for path in [
    "/".to_string(),
    "/blocks".into(),
    "/status".into(),
    "/inscriptions".into(),
    "/runes".into(),
    "/clock".into(),
    "/faq".into(),
    "/static/index.css".into(),
    "/no-such-route".into(),
    "/inscription/nonsense".into(),
    "/content/0000000000000000000000000000000000000000000000000000000000000000i0".into(),
    format!("/inscription/{first}"),
    "/blockheight".into(),
    "/r/blockhash".into(),
    "/feed.xml".into(),
  ] {
    let reply = web.get(&path, &[]);
    no_csp(&path, &reply, out);
  }
}

pub fn run_explorer(property: &str, sc: &Scenario) -> RunReport {
  let start = std::time::Instant::now();
  let mut ctx = Ctx {
    property: property.into(),
    report: RunReport {
      seed: sc.seed,
      property: property.into(),
      profile: sc.profile.clone(),
      ..Default::default()
    },
    oracle_rng: Rng::new(sc.seed).fork("oracle"),
  };
  let opts = sc.server.clone().unwrap_or_default();
  let mut ex = Exec::new(&sc.config, sc.seed);
  let n_updates = sc.ops.iter().filter(|o| matches!(o, Op::Update(_))).count();
  let mut update_no = 0;
  let mut requests = 0u64;
  let mut stop = false;
  for op in &sc.ops {
    if stop {
      break;
    }
    match op {
      Op::Mine(b) => ex.mine(b),
      Op::Reopen => {
        if ex.is_open()
          && let Err(e) = ex.reopen()
        {
          ctx.report.inconclusive = Some(format!("reopen failed: {e}"));
          stop = true;
        }
      }
      Op::Update(u) => {
        let r = ex.update(u);
        if !fault_free_update_ok(&r, &mut ctx) {
          stop = true;
          continue;
        }
        update_no += 1;
        // the explorer is audited at the end and at one intermediate point
        if update_no != n_updates && update_no != n_updates / 2 {
          continue;
        }
        let count = ex.index().block_count().unwrap_or(0);
        if count == 0 {
          continue;
        }
        let (model, network, txs) = ex.sim.snapshot(|s| {
          (
            s.world.models.get(count as usize - 1).cloned(),
            s.world.network,
            s.world.txs.clone(),
          )
        });
        let Some(model) = model else {
          continue;
        };
        let entries: Vec<EntryRow> = ex
          .index()
          .verif_inscription_entries()
          .unwrap_or_default()
          .into_iter()
          .map(|(e, sp)| {
            (
              e.id,
              e.sequence_number,
              e.inscription_number,
              e.charms,
              e.fee,
              e.height,
              e.sat.map(|s| s.0),
              e.parents.clone(),
              sp,
            )
          })
          .collect();
        let mut payloads = BTreeMap::new();
        for e in &entries {
          if let Some(tx) = txs.get(&e.0.txid)
            && let Some(env) = ParsedEnvelope::from_transaction(tx)
              .into_iter()
              .nth(e.0.index as usize)
          {
            payloads.insert(e.0, env.payload);
          }
        }
        let known: Vec<InscriptionId> = entries.iter().map(|e| e.0).collect();
        let mut hidden: Vec<InscriptionId> = Vec::new();
        if !known.is_empty() {
          for k in &opts.hidden {
            // prefer hiding inscriptions that others delegate to
            let delegated: Vec<InscriptionId> = payloads
              .values()
              .filter_map(|p| p.delegate())
              .filter(|d| known.contains(d))
              .collect();
            let id = if !delegated.is_empty() && k % 2 == 0 {
              delegated[*k as usize % delegated.len()]
            } else {
              known[*k as usize % known.len()]
            };
            if !hidden.contains(&id) {
              hidden.push(id);
            }
          }
        }
        let hidden_strings: Vec<String> = hidden.iter().map(|i| i.to_string()).collect();
        let mut web = match Web::start(&ex, &opts, &hidden_strings) {
          Ok(w) => w,
          Err(e) => {
            ctx.report.harness_error = Some(e);
            stop = true;
            continue;
          }
        };
        let at_tip = ex.sim.snapshot(|s| s.world.best.len() as u32 == count);
        let view = View {
          ex: &ex,
          model: &model,
          entries,
          at_tip,
        };
        let mut out = Vec::new();
        if property == "C18" {
          c18(&mut web, &view, network, &mut ctx.oracle_rng, &mut out);
        } else {
          c19(&mut web, &view, &opts, &hidden, &payloads, &mut out);
        }
        requests += web.requests;
        drop(web);
        ctx.report.checks += 1;
        let panics = crate::exec::take_panics();
        if !panics.is_empty() {
          out.push(v(property, "handler_panic", format!("{panics:?}")));
        }
        ctx.report.violations.extend(out);
        if !ctx.report.violations.is_empty() {
          stop = true;
        }
      }
      _ => {}
    }
  }
  let final_digest = if ex.is_open() {
    ex.index()
      .verif_dump()
      .map(|d| oracle::digest(&oracle::masked(&d)))
      .unwrap_or(0)
  } else {
    0
  };
  ctx.report.facts.insert("http.requests".into(), requests);
  let facts = std::mem::take(&mut ctx.report.facts);
  let mut report = finish_report(ex, ctx.report, sc, final_digest);
  report.facts.extend(facts);
  report.nontrivial = report.checks > 0
    && report.facts.get("model.inscriptions").copied().unwrap_or(0) >= 2
    && requests >= 10;
  report.wall_us = start.elapsed().as_micros() as u64;
  report
}
