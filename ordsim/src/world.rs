//! The simulated Bitcoin Core: a block tree with a best chain, the reference
//! model of the best chain per height, the realiser that turns block specs
//! into real blocks, and the RPC surface ord calls.

use {
  crate::{
    model::{self, Model, Params, subsidy},
    rng::Rng,
    scenario::*,
  },
  bitcoin::{
    Amount, Block, BlockHash, CompactTarget, OutPoint, ScriptBuf, Sequence, Transaction, TxIn,
    TxMerkleNode, TxOut, Txid, Witness,
    absolute::LockTime,
    block::{Header, Version as BlockVersion},
    consensus::encode::serialize_hex,
    hashes::{Hash, sha256},
    transaction::Version,
  },
  ordinals::{Edict, Etching, Height, Rune, RuneId, Runestone, Terms},
  serde_json::{Value, json},
  std::{
    collections::{BTreeMap, HashMap},
    sync::Arc,
  },
};

pub const BASE_TIME: u32 = 1_700_000_000;

#[derive(Debug)]
pub struct BlockInfo {
  pub block: Block,
  pub hash: BlockHash,
  pub height: u32,
}

#[derive(Clone, Debug)]
pub struct RpcError {
  pub code: i32,
  pub message: String,
}

pub struct World {
  pub chain: ChainKind,
  pub network: bitcoin::Network,
  pub blocks: HashMap<BlockHash, Arc<BlockInfo>>,
  pub best: Vec<BlockHash>,
  /// every block (any branch) containing the transaction, latest last
  pub tx_blocks: HashMap<Txid, Vec<BlockHash>>,
  pub txs: HashMap<Txid, Transaction>,
  /// transactions of disconnected blocks not re-mined (answer without blockhash)
  pub mempool: HashMap<Txid, Transaction>,
  /// models[h] = model after block h of the best chain
  pub models: Vec<Arc<Model>>,
  pub params: Params,
  /// distinguishes blocks of different branches at the same height
  pub branch_nonce: u32,
  pub stats: WorldStats,
  /// whether disconnected transactions stay known to the node
  pub keep_disconnected: bool,
  pub reorg_count: u32,
  /// tier 3: wallets, mempool of broadcast transactions
  pub wallet_side: crate::wallet_node::WalletSide,
  pub wallet_rng: Rng,
}

#[derive(Default, Debug, Clone)]
pub struct WorldStats {
  pub blocks_mined: u64,
  pub txs_mined: u64,
  pub reorgs: u64,
  pub max_reorg_depth: u32,
  pub rpc_calls: BTreeMap<String, u64>,
}

pub(crate) fn derive(tag: &str, n: u64, len: usize) -> Vec<u8> {
  let mut data = tag.as_bytes().to_vec();
  data.extend_from_slice(&n.to_le_bytes());
  sha256::Hash::hash(&data).to_byte_array()[..len].to_vec()
}

pub fn script_for(spec: &ScriptSpec) -> ScriptBuf {
  match spec {
    ScriptSpec::P2tr(k) => {
      let mut b = vec![0x51, 0x20];
      b.extend(derive("p2tr", (*k).into(), 32));
      ScriptBuf::from_bytes(b)
    }
    ScriptSpec::P2wpkh(k) => {
      let mut b = vec![0x00, 0x14];
      b.extend(derive("p2wpkh", (*k).into(), 20));
      ScriptBuf::from_bytes(b)
    }
    ScriptSpec::Pool(k) => match k % 4 {
      0 => script_for(&ScriptSpec::P2tr(60000)),
      1 => script_for(&ScriptSpec::P2wpkh(60001)),
      2 => script_for(&ScriptSpec::P2tr(60002)),
      _ => ScriptBuf::from_bytes(vec![0x51]),
    },
    ScriptSpec::Wallet(w, k) => crate::wallet_node::wallet_script(
      if *w == 0 { "ord" } else { "buyer" },
      u32::from(*k) % crate::wallet_node::POOL,
    ),
    ScriptSpec::Empty => ScriptBuf::new(),
    ScriptSpec::OpReturn(data) => {
      let mut b = vec![0x6a];
      push_data(&mut b, data);
      if data.is_empty() {
        b.truncate(1);
      }
      ScriptBuf::from_bytes(b)
    }
    ScriptSpec::Raw(bytes) => ScriptBuf::from_bytes(bytes.clone()),
  }
}

/// Compact byte encoding of an inscription id: txid bytes followed by the
/// little-endian index without trailing zero bytes.
pub fn id_value(id: ord::InscriptionId) -> Vec<u8> {
  let mut v = id.txid.to_byte_array().to_vec();
  let mut index = id.index.to_le_bytes().to_vec();
  while index.last() == Some(&0) {
    index.pop();
  }
  v.extend(index);
  v
}

/// Append a minimal-length data push (never a pushnum opcode).
pub fn push_data(script: &mut Vec<u8>, data: &[u8]) {
  let n = data.len();
  if n == 0 {
    script.push(0x00);
  } else if n <= 75 {
    script.push(n as u8);
  } else if n <= 255 {
    script.push(0x4c);
    script.push(n as u8);
  } else if n <= 65535 {
    script.push(0x4d);
    script.extend_from_slice(&(n as u16).to_le_bytes());
  } else {
    script.push(0x4e);
    script.extend_from_slice(&(n as u32).to_le_bytes());
  }
  script.extend_from_slice(data);
}

fn parse_u128(s: &str) -> u128 {
  s.parse().unwrap_or(0)
}

thread_local! {
  /// txid of the transaction being realised (for `IdRef::Own`)
  static OWN_TXID: std::cell::Cell<Option<Txid>> = const { std::cell::Cell::new(None) };
  static OWN_INPUTS: std::cell::RefCell<Vec<OutPoint>> = const { std::cell::RefCell::new(Vec::new()) };
}

impl World {
  pub fn new(config: &Config) -> Self {
    let chain = config.chain;
    let network: bitcoin::Network = chain.ord().into();
    let it = config.integration_test;
    let (jubilee, first_inscription, first_rune) = match chain {
      ChainKind::Regtest => (110, 0, 0),
      ChainKind::Testnet4 => (0, 0, 0),
      ChainKind::Signet => (175392, if it { 0 } else { 112402 }, 0),
      ChainKind::Mainnet => (
        824544,
        if it { 0 } else { 767430 },
        if it { 0 } else { 840000 },
      ),
    };
    let params = Params {
      network,
      jubilee_height: jubilee,
      first_inscription_height: config.first_inscription_height.unwrap_or(first_inscription),
      first_rune_height: first_rune,
    };
    let mut world = Self {
      chain,
      network,
      blocks: HashMap::new(),
      best: Vec::new(),
      tx_blocks: HashMap::new(),
      txs: HashMap::new(),
      mempool: HashMap::new(),
      models: Vec::new(),
      params: params.clone(),
      branch_nonce: 0,
      stats: WorldStats::default(),
      keep_disconnected: true,
      reorg_count: 0,
      wallet_side: Default::default(),
      wallet_rng: Rng::new(0x77616c6c6574),
    };
    let genesis = bitcoin::blockdata::constants::genesis_block(network);
    let mut m = Model::new(params);
    if chain == ChainKind::Mainnet && config.index_runes {
      m.runes.seed_mainnet();
    }
    m.begin_block(0, genesis.header.time);
    m.finish_block(&genesis.txdata[0]);
    world.connect(genesis, m);
    world
  }

  pub fn tip_height(&self) -> u32 {
    (self.best.len() - 1) as u32
  }

  pub fn tip_model(&self) -> &Arc<Model> {
    self.models.last().unwrap()
  }

  pub fn block_at(&self, height: u32) -> Option<&Arc<BlockInfo>> {
    self.best.get(height as usize).map(|h| &self.blocks[h])
  }

  fn connect(&mut self, block: Block, model: Model) {
    let hash = block.block_hash();
    let height = self.best.len() as u32;
    for tx in &block.txdata {
      let txid = tx.compute_txid();
      self.tx_blocks.entry(txid).or_default().push(hash);
      self.txs.insert(txid, tx.clone());
      self.mempool.remove(&txid);
    }
    self.stats.blocks_mined += 1;
    self.stats.txs_mined += block.txdata.len() as u64;
    self.blocks.insert(
      hash,
      Arc::new(BlockInfo {
        block,
        hash,
        height,
      }),
    );
    self.best.push(hash);
    self.models.push(Arc::new(model));
  }

  /// Mine one block on the best tip.
  pub fn mine(&mut self, spec: &BlockSpec) {
    let height = self.best.len() as u32;
    let time = BASE_TIME + 600 * height + self.branch_nonce;
    let mut m = (**self.tip_model()).clone();
    m.begin_block(height, time);

    let mut txdata = Vec::new();
    let block_start_seq = m.next_seq;
    if spec.include_mempool {
      let mut pool = self.drain_mempool();
      if let Some(limit) = spec.mempool_limit {
        let rest = pool.split_off((limit as usize).min(pool.len()));
        self.wallet_side.mempool = rest;
      }
      for tx in pool {
        // a broadcast transaction whose inputs were spent meanwhile is dropped
        if tx.input.iter().all(|i| m.utxos.contains_key(&i.previous_output)) {
          m.apply_tx(&tx);
          txdata.push(tx);
        }
      }
    }
    for spec in &spec.txs {
      if let Some(tx) = self.realize_tx(&m, spec, height, block_start_seq, txdata.len() as u32 + 1) {
        m.apply_tx(&tx);
        txdata.push(tx);
      }
    }

    let fees = model::ranges_len(&m.block.fee_ranges);
    let coinbase = self.realize_coinbase(&spec.coinbase, height, fees);
    m.finish_block(&coinbase);
    txdata.insert(0, coinbase);

    let prev = *self.best.last().unwrap();
    let mut block = Block {
      header: Header {
        version: BlockVersion::from_consensus(0x2000_0000),
        prev_blockhash: prev,
        merkle_root: TxMerkleNode::all_zeros(),
        time,
        bits: CompactTarget::from_consensus(0x207f_ffff),
        nonce: self.branch_nonce,
      },
      txdata,
    };
    block.header.merkle_root = block.compute_merkle_root().unwrap();
    self.connect(block, m);
  }

  /// Atomically switch the best chain: disconnect `depth` blocks (clamped so
  /// that genesis stays) and connect the given ones.
  pub fn reorg(&mut self, depth: u32, blocks: &[BlockSpec]) -> u32 {
    let depth = depth.min(self.tip_height());
    if depth == 0 {
      for b in blocks {
        self.mine(b);
      }
      return 0;
    }
    self.branch_nonce += 1;
    self.reorg_count += 1;
    self.stats.reorgs += 1;
    self.stats.max_reorg_depth = self.stats.max_reorg_depth.max(depth);
    let keep = self.best.len() - depth as usize;
    let disconnected: Vec<BlockHash> = self.best.split_off(keep);
    self.models.truncate(keep);
    for hash in &disconnected {
      let info = self.blocks[hash].clone();
      for tx in info.block.txdata.iter().skip(1) {
        let txid = tx.compute_txid();
        if self.keep_disconnected {
          self.mempool.insert(txid, tx.clone());
        }
      }
    }
    for b in blocks {
      self.mine(b);
    }
    depth
  }

  pub fn apply_event(&mut self, event: &NodeEvent) {
    match event {
      NodeEvent::Mine(blocks) => {
        for b in blocks {
          self.mine(b);
        }
      }
      NodeEvent::Reorg { depth, blocks } => {
        self.reorg(*depth, blocks);
      }
    }
  }

  fn tx_on_best_chain(&self, txid: &Txid) -> Option<&Arc<BlockInfo>> {
    let blocks = self.tx_blocks.get(txid)?;
    blocks
      .iter()
      .rev()
      .map(|h| &self.blocks[h])
      .find(|info| self.best.get(info.height as usize) == Some(&info.hash))
  }

  // ------------------------------------------------------------- realiser

  fn select_input(
    &self,
    m: &Model,
    sel: &InputSel,
    taken: &[OutPoint],
    height: u32,
    block_start_seq: u64,
  ) -> Option<OutPoint> {
    let avail: Vec<(OutPoint, &model::Utxo)> = m
      .utxos_by_seq()
      .into_iter()
      .filter(|(o, u)| {
        !taken.contains(o)
          && !u.script.is_op_return()
          // the coinbase of the block being built does not exist yet; earlier
          // coinbases are spendable (maturity is not modelled, ord has no such rule)
          && !(u.coinbase && u.height == height)
          // the genesis coinbase is unspendable
          && u.height != 0
      })
      .collect();
    if avail.is_empty() {
      return None;
    }
    let fallback = |k: u32| Some(avail[k as usize % avail.len()].0);
    let from = |subset: Vec<OutPoint>, k: u32| -> Option<OutPoint> {
      if subset.is_empty() {
        fallback(k)
      } else {
        Some(subset[k as usize % subset.len()])
      }
    };
    match sel {
      InputSel::Utxo(k) => fallback(*k),
      InputSel::Duplicated(k) => from(
        avail
          .iter()
          .filter(|(o, u)| {
            u.coinbase
              && self.tx_blocks.get(&o.txid).is_some_and(|blocks| {
                blocks
                  .iter()
                  .filter(|h| {
                    self
                      .blocks
                      .get(*h)
                      .is_some_and(|info| self.best.get(info.height as usize) == Some(*h))
                  })
                  .count()
                  > 1
              })
          })
          .map(|(o, _)| *o)
          .collect(),
        *k,
      ),
      InputSel::SameBlock(k) => from(
        avail
          .iter()
          .filter(|(_, u)| u.seq >= block_start_seq)
          .map(|(o, _)| *o)
          .collect(),
        *k,
      ),
      InputSel::ZeroValue(k) => from(
        avail
          .iter()
          .filter(|(_, u)| u.value == 0)
          .map(|(o, _)| *o)
          .collect(),
        *k,
      ),
      InputSel::Taproot { sel, min_conf } => from(
        avail
          .iter()
          .filter(|(_, u)| u.script.is_p2tr() && height - u.height + 1 >= *min_conf)
          .map(|(o, _)| *o)
          .collect(),
        *sel,
      ),
      InputSel::TaprootShallow { sel, max_conf } => from(
        avail
          .iter()
          .filter(|(_, u)| u.script.is_p2tr() && height - u.height + 1 <= *max_conf)
          .map(|(o, _)| *o)
          .collect(),
        *sel,
      ),
      InputSel::Inscribed(k) => {
        let mut holders = Vec::new();
        for i in &m.inscr.list {
          if let Some(sat) = i.sat
            && let Some((o, _)) = m.locate(sat)
            && avail.iter().any(|(a, _)| *a == o)
            && !holders.contains(&o)
          {
            holders.push(o);
          }
        }
        from(holders, *k)
      }
      InputSel::Runic(k) => from(
        m.runes
          .balances
          .keys()
          .filter(|o| avail.iter().any(|(a, _)| a == *o))
          .copied()
          .collect(),
        *k,
      ),
    }
  }

  fn resolve_id(&self, m: &Model, r: &IdRef) -> Vec<u8> {
    if let IdRef::Own(index) = r {
      return id_value(ord::InscriptionId {
        txid: OWN_TXID.with(|c| c.get()).unwrap_or(Txid::from_byte_array([5; 32])),
        index: *index,
      });
    }
    let known = m.inscr.known_ids();
    let value = |id: ord::InscriptionId| id_value(id);
    if let IdRef::Carried(k) = r {
      let inputs = OWN_INPUTS.with(|c| c.borrow().clone());
      let carried: Vec<ord::InscriptionId> = m
        .inscr
        .list
        .iter()
        .filter(|i| {
          i.sat
            .and_then(|sat| m.locate(sat))
            .is_some_and(|(o, _)| inputs.contains(&o))
        })
        .map(|i| i.id)
        .collect();
      return if carried.is_empty() {
        self.resolve_id(m, &IdRef::Known(*k))
      } else {
        value(carried[*k as usize % carried.len()])
      };
    }
    match r {
      IdRef::Known(k) => {
        if known.is_empty() {
          value(ord::InscriptionId {
            txid: Txid::from_byte_array([7; 32]),
            index: *k,
          })
        } else {
          value(known[*k as usize % known.len()])
        }
      }
      IdRef::KnownTxIndex(k, index) => {
        let txid = if known.is_empty() {
          Txid::from_byte_array([9; 32])
        } else {
          known[*k as usize % known.len()].txid
        };
        value(ord::InscriptionId {
          txid,
          index: *index,
        })
      }
      IdRef::Missing(k) => value(ord::InscriptionId {
        txid: Txid::from_byte_array(derive("missing", (*k).into(), 32).try_into().unwrap()),
        index: *k % 3,
      }),
      IdRef::RawBytes(b) => b.clone(),
      IdRef::Own(_) | IdRef::Carried(_) => unreachable!(),
    }
  }

  fn envelope_script(
    &self,
    m: &Model,
    env: &EnvSpec,
    total_out_hint: u64,
    input_starts: &[u64],
    script: &mut Vec<u8>,
  ) {
    // OP_FALSE [OP_FALSE] OP_IF "ord" fields… [OP_0 body…] OP_ENDIF
    script.push(0x00);
    if env.stutter {
      script.push(0x00);
    }
    script.push(0x63);
    push_data(script, b"ord");
    let field = |script: &mut Vec<u8>, tag: u8, value: &[u8]| {
      push_data(script, &[tag]);
      push_data(script, value);
    };
    if let Some(ct) = &env.content_type {
      if env.pushnum {
        script.push(0x51);
        push_data(script, ct);
      } else {
        field(script, 1, ct);
      }
      if env.duplicate_field {
        field(script, 1, ct);
      }
    } else if env.pushnum {
      // OP_PUSHNUM_1 as the tag of a content-type field
      script.push(0x51);
      push_data(script, b"text/plain");
    } else if env.duplicate_field {
      field(script, 7, b"a");
      field(script, 7, b"b");
    }
    if let Some(v) = &env.content_encoding {
      field(script, 9, v);
    }
    if let Some(v) = &env.metaprotocol {
      field(script, 7, v);
    }
    for p in &env.parents {
      let v = self.resolve_id(m, p);
      field(script, 3, &v);
    }
    if let Some(d) = &env.delegate {
      let v = self.resolve_id(m, d);
      field(script, 11, &v);
    }
    if let Some(p) = &env.pointer {
      field(script, 2, p);
    } else if let Some(k) = env.pointer_input
      && !input_starts.is_empty()
    {
      let pointer = input_starts[k as usize % input_starts.len()];
      field(script, 2, &ord::Inscription::pointer_value(pointer));
    } else if let Some(permille) = env.pointer_permille {
      let pointer = (u128::from(total_out_hint) * u128::from(permille) / 1000) as u64;
      field(script, 2, &ord::Inscription::pointer_value(pointer));
    }
    if let Some(v) = &env.metadata {
      for chunk in v.chunks(520) {
        field(script, 5, chunk);
      }
    }
    if let Some(v) = &env.rune {
      field(script, 13, v);
    }
    if let Some(tag) = env.unknown_tag {
      field(script, tag, b"x");
    }
    if env.incomplete_field {
      push_data(script, &[5]);
    }
    if let Some(body) = &env.body {
      script.push(0x00);
      for chunk in body.chunks(520) {
        push_data(script, chunk);
      }
      if body.is_empty() {
        // an empty body is the body tag alone
      }
    }
    script.push(0x68);
  }

  fn witness_for(
    &self,
    m: &Model,
    w: &WitnessSpec,
    total_out_hint: u64,
    input_starts: &[u64],
    auto_commit: Option<&[u8]>,
  ) -> Witness {
    let control = {
      let mut c = vec![0xc0];
      c.extend_from_slice(&[0x02; 32]);
      c
    };
    let from_script = |script: Vec<u8>| {
      let mut witness = Witness::new();
      witness.push(script);
      witness.push(&control);
      witness
    };
    match w {
      WitnessSpec::None => Witness::new(),
      WitnessSpec::Envelopes(envs) => {
        let mut script = Vec::new();
        for e in envs {
          self.envelope_script(m, e, total_out_hint, input_starts, &mut script);
        }
        from_script(script)
      }
      WitnessSpec::Commit(bytes) => {
        let mut script = Vec::new();
        let c: &[u8] = if bytes.is_empty() {
          auto_commit.unwrap_or(&[])
        } else {
          bytes
        };
        push_data(&mut script, c);
        script.push(0x75);
        script.push(0x51);
        from_script(script)
      }
      WitnessSpec::CommitAndEnvelopes(bytes, envs) => {
        let mut script = Vec::new();
        let c: &[u8] = if bytes.is_empty() {
          auto_commit.unwrap_or(&[])
        } else {
          bytes
        };
        push_data(&mut script, c);
        script.push(0x75);
        for e in envs {
          self.envelope_script(m, e, total_out_hint, input_starts, &mut script);
        }
        script.push(0x51);
        from_script(script)
      }
      WitnessSpec::RawScript(script) => from_script(script.clone()),
      WitnessSpec::RawStack(items) => {
        let mut witness = Witness::new();
        for item in items {
          witness.push(hex::decode(item).unwrap_or_default());
        }
        witness
      }
    }
  }

  fn resolve_rune_id(&self, m: &Model, r: &RuneIdRef, held: &[RuneId]) -> RuneId {
    match r {
      RuneIdRef::ThisBlock(delta) => RuneId {
        block: u64::from(m.block.height),
        tx: m.block.tx_index + delta,
      },
      RuneIdRef::Held(k) => {
        if held.is_empty() {
          self.resolve_rune_id(m, &RuneIdRef::Known(*k), held)
        } else {
          held[*k as usize % held.len()]
        }
      }
      RuneIdRef::Known(k) => {
        let ids = m.runes.known_ids();
        if ids.is_empty() {
          RuneId::default()
        } else {
          ids[*k as usize % ids.len()]
        }
      }
      RuneIdRef::Zero => RuneId::default(),
      RuneIdRef::Raw(block, tx) => RuneId {
        block: *block,
        tx: *tx,
      },
    }
  }

  fn resolve_rune_name(&self, m: &Model, name: &RuneName, height: u32) -> Option<Rune> {
    match name {
      RuneName::None => None,
      RuneName::AtMinimum(delta) => {
        let min = Rune::minimum_at_height(self.network, Height(height)).0;
        let v = if *delta >= 0 {
          min.saturating_add(*delta as u128)
        } else {
          min.saturating_sub(delta.unsigned_abs() as u128)
        };
        Some(Rune(v))
      }
      RuneName::Value(v) => Some(Rune(parse_u128(v))),
      RuneName::Duplicate(k) => {
        let ids = m.runes.known_ids();
        if ids.is_empty() {
          Some(Rune(u128::from(*k) + (1 << 100)))
        } else {
          Some(m.runes.runes[&ids[*k as usize % ids.len()]].rune)
        }
      }
      RuneName::Reserved(k) => Some(Rune(6402364363415443603228541259936211926 + u128::from(*k))),
      RuneName::Fresh(k) => {
        // thirteen or more letters: etchable from the first rune block
        Some(Rune((1u128 << 90) + u128::from(*k) * 7919))
      }
    }
  }

  /// Returns the runestone script and the commitment of its etching, if any.
  fn runestone_script(
    &self,
    m: &Model,
    spec: &RunestoneSpec,
    height: u32,
    n_outputs_after: u32,
    held: &[RuneId],
  ) -> (ScriptBuf, Option<Vec<u8>>) {
    match spec {
      RunestoneSpec::Structured {
        edicts,
        etching,
        mint,
        pointer,
      } => {
        let mut commit = None;
        let etching = etching.as_ref().map(|e| {
          let rune = self.resolve_rune_name(m, &e.name, height);
          commit = rune.map(|r| r.commitment());
          Etching {
            divisibility: e.divisibility,
            premine: e.premine.as_deref().map(parse_u128),
            rune,
            spacers: e.spacers,
            symbol: e.symbol,
            terms: e.terms.as_ref().map(|t| {
              let rel = |v: Option<u64>| {
                v.map(|v| {
                  if t.relative_to_tip {
                    u64::from(height).saturating_add(v)
                  } else {
                    v
                  }
                })
              };
              Terms {
                amount: t.amount.as_deref().map(parse_u128),
                cap: t.cap.as_deref().map(parse_u128),
                height: (rel(t.height_start), rel(t.height_end)),
                offset: (t.offset_start, t.offset_end),
              }
            }),
            turbo: e.turbo,
          }
        });
        let runestone = Runestone {
          edicts: edicts
            .iter()
            .map(|e| Edict {
              id: self.resolve_rune_id(m, &e.id, held),
              amount: parse_u128(&e.amount),
              output: e.output.unwrap_or(n_outputs_after),
            })
            .collect(),
          etching,
          mint: mint.as_ref().map(|r| self.resolve_rune_id(m, r, held)),
          pointer: *pointer,
        };
        (runestone.encipher(), commit)
      }
      RunestoneSpec::Integers(ints) => {
        let mut payload = Vec::new();
        for i in ints {
          ordinals::varint::encode_to_vec(parse_u128(i), &mut payload);
        }
        let mut script = vec![0x6a, 0x5d];
        for chunk in payload.chunks(520) {
          push_data(&mut script, chunk);
        }
        (ScriptBuf::from_bytes(script), None)
      }
      RunestoneSpec::RawPayload(bytes) => {
        let mut script = vec![0x6a, 0x5d];
        script.extend_from_slice(bytes);
        (ScriptBuf::from_bytes(script), None)
      }
    }
  }

  fn realize_tx(
    &self,
    m: &Model,
    spec: &TxSpec,
    height: u32,
    block_start_seq: u64,
    _tx_index: u32,
  ) -> Option<Transaction> {
    let mut taken = Vec::new();
    for i in &spec.inputs {
      if let Some(o) = self.select_input(m, &i.sel, &taken, height, block_start_seq) {
        taken.push(o);
      }
    }
    if taken.is_empty() {
      return None;
    }
    let total_in: u64 = taken.iter().map(|o| m.utxos[o].value).sum();

    let fee = match spec.fee_exact {
      Some(f) => f.min(total_in),
      None => ((u128::from(total_in) * u128::from(spec.fee_permille.min(1000))) / 1000) as u64,
    };
    let mut remaining = total_in - fee;

    let mut out_specs: Vec<OutSpec> = spec.outputs.clone();
    if out_specs.is_empty() && spec.runestone.is_none() {
      out_specs.push(OutSpec {
        weight: 1,
        exact: None,
        script: ScriptSpec::P2tr(0),
      });
    }

    let mut values = vec![0u64; out_specs.len()];
    let runestone_value = if spec.runestone.is_some() {
      spec.runestone_value.min(remaining)
    } else {
      0
    };
    remaining -= runestone_value;
    for (i, o) in out_specs.iter().enumerate() {
      if let Some(exact) = o.exact {
        values[i] = exact.min(remaining);
        remaining -= values[i];
      }
    }
    let total_weight: u64 = out_specs
      .iter()
      .filter(|o| o.exact.is_none())
      .map(|o| u64::from(o.weight))
      .sum();
    if total_weight > 0 {
      let pool = remaining;
      let mut first = None;
      for (i, o) in out_specs.iter().enumerate() {
        if o.exact.is_none() && o.weight > 0 {
          let share = (u128::from(pool) * u128::from(o.weight) / u128::from(total_weight)) as u64;
          values[i] = share;
          remaining -= share;
          first.get_or_insert(i);
        }
      }
      // rounding dust goes to the first weighted output, so that a zero fee
      // stays exactly zero
      if let Some(i) = first {
        values[i] += remaining;
      }
    }

    let mut output: Vec<TxOut> = out_specs
      .iter()
      .zip(&values)
      .map(|(o, v)| TxOut {
        value: Amount::from_sat(*v),
        script_pubkey: script_for(&o.script),
      })
      .collect();

    let mut auto_commit = None;
    if let Some(rs) = &spec.runestone {
      let at = spec.runestone_at as usize % (output.len() + 1);
      let mut held: Vec<RuneId> = Vec::new();
      for o in &taken {
        if let Some(b) = m.runes.balances.get(o) {
          for id in b.keys() {
            if !held.contains(id) {
              held.push(*id);
            }
          }
        }
      }
      held.sort();
      let (script, commit) = self.runestone_script(m, rs, height, output.len() as u32 + 1, &held);
      auto_commit = commit;
      output.insert(
        at,
        TxOut {
          value: Amount::from_sat(runestone_value),
          script_pubkey: script,
        },
      );
    }

    let total_out: u64 = output.iter().map(|o| o.value.to_sat()).sum();

    let mut input_starts = Vec::new();
    let mut acc = 0u64;
    for o in &taken {
      input_starts.push(acc);
      acc += m.utxos[o].value;
    }
    let input = taken
      .iter()
      .map(|o| TxIn {
        previous_output: *o,
        script_sig: ScriptBuf::new(),
        sequence: Sequence::ENABLE_RBF_NO_LOCKTIME,
        witness: Witness::new(),
      })
      .collect();

    let mut tx = Transaction {
      version: Version(2),
      lock_time: LockTime::ZERO,
      input,
      output,
    };
    // A non-coinbase transaction can only repeat a txid by spending a
    // duplicated coinbase in the same way; BIP30 forbids it. Only duplicate
    // coinbases (the historic exception) are generated, see DESIGN §12.
    let mut nonce = 0u32;
    while self.txs.contains_key(&tx.compute_txid()) {
      nonce += 1;
      tx.lock_time = LockTime::from_consensus(nonce);
    }
    // the txid does not commit to the witnesses: envelopes may refer to it
    OWN_TXID.with(|c| c.set(Some(tx.compute_txid())));
    OWN_INPUTS.with(|c| *c.borrow_mut() = taken.clone());
    for (txin, i) in tx.input.iter_mut().zip(&spec.inputs) {
      txin.witness = self.witness_for(m, &i.witness, total_out, &input_starts, auto_commit.as_deref());
    }
    OWN_TXID.with(|c| c.set(None));
    OWN_INPUTS.with(|c| c.borrow_mut().clear());
    Some(tx)
  }

  fn realize_coinbase(&self, spec: &CoinbaseSpec, height: u32, fees: u64) -> Transaction {
    let reward = subsidy(height) + fees;

    if let Some(k) = spec.duplicate_of
      && height > 1
    {
      // odd selectors copy a recent coinbase (its outputs are more likely to
      // be unspent still), even ones any earlier coinbase
      let h = if k % 2 == 1 {
        height - 1 - (k / 2) % (height - 1).min(6)
      } else {
        1 + k % (height - 1)
      };
      let old = &self.block_at(h).unwrap().block.txdata[0];
      let claim: u64 = old.output.iter().map(|o| o.value.to_sat()).sum();
      if claim <= reward {
        return old.clone();
      }
    }

    let mut out_specs = spec.outputs.clone();
    if out_specs.is_empty() {
      out_specs.push(OutSpec {
        weight: 1,
        exact: None,
        script: ScriptSpec::P2tr(1),
      });
    }
    let claim = match spec.claim {
      Claim::Full => reward,
      Claim::Under(x) => reward - x.min(reward),
      Claim::Nothing => 0,
    };
    let mut remaining = claim;
    let mut values = vec![0u64; out_specs.len()];
    for (i, o) in out_specs.iter().enumerate() {
      if let Some(exact) = o.exact {
        values[i] = exact.min(remaining);
        remaining -= values[i];
      }
    }
    let total_weight: u64 = out_specs
      .iter()
      .filter(|o| o.exact.is_none())
      .map(|o| u64::from(o.weight))
      .sum();
    if total_weight > 0 {
      let pool = remaining;
      let mut first = None;
      for (i, o) in out_specs.iter().enumerate() {
        if o.exact.is_none() && o.weight > 0 {
          let share = (u128::from(pool) * u128::from(o.weight) / u128::from(total_weight)) as u64;
          values[i] = share;
          remaining -= share;
          first.get_or_insert(i);
        }
      }
      if let Some(i) = first {
        values[i] += remaining;
      }
    }

    let mut script_sig = Vec::new();
    push_data(&mut script_sig, &height.to_le_bytes());
    push_data(&mut script_sig, &self.branch_nonce.to_le_bytes());

    Transaction {
      version: Version(2),
      lock_time: LockTime::ZERO,
      input: vec![TxIn {
        previous_output: OutPoint::null(),
        script_sig: ScriptBuf::from_bytes(script_sig),
        sequence: Sequence::MAX,
        witness: Witness::new(),
      }],
      output: out_specs
        .iter()
        .zip(values)
        .map(|(o, v)| TxOut {
          value: Amount::from_sat(v),
          script_pubkey: script_for(&o.script),
        })
        .collect(),
    }
  }

  // ------------------------------------------------------------------ RPC

  fn not_found_height() -> RpcError {
    RpcError {
      code: -8,
      message: "Block height out of range".into(),
    }
  }

  fn no_such_tx() -> RpcError {
    RpcError {
      code: -5,
      message: "No such mempool or blockchain transaction. Use gettransaction for wallet transactions."
        .into(),
    }
  }

  fn block_by_hash_param(&self, v: Option<&Value>) -> Result<Arc<BlockInfo>, RpcError> {
    let s = v.and_then(|v| v.as_str()).unwrap_or("");
    let hash: BlockHash = s.parse().map_err(|_| RpcError {
      code: -8,
      message: "blockhash must be hexadecimal string".into(),
    })?;
    self.blocks.get(&hash).cloned().ok_or(RpcError {
      code: -5,
      message: "Block not found".into(),
    })
  }

  pub fn rpc_wallet(&mut self, wallet: Option<&str>, method: &str, params: &[Value]) -> Result<Value, RpcError> {
    let mut rng = self.wallet_rng.clone();
    let r = self.wallet_rpc(wallet, method, params, &mut rng);
    self.wallet_rng = rng;
    match r {
      Some(r) => {
        *self.stats.rpc_calls.entry(method.to_string()).or_default() += 1;
        r
      }
      None => self.rpc(method, params),
    }
  }

  pub fn rpc(&mut self, method: &str, params: &[Value]) -> Result<Value, RpcError> {
    *self.stats.rpc_calls.entry(method.to_string()).or_default() += 1;
    match method {
      "getnetworkinfo" => Ok(json!({
        "version": 280000,
        "subversion": "/Satoshi:28.0.0/",
        "protocolversion": 70016,
        "localservices": "0000000000000409",
        "localrelay": true,
        "timeoffset": 0,
        "connections": 0,
        "networkactive": true,
        "networks": [],
        "relayfee": 0.00001,
        "incrementalfee": 0.00001,
        "localaddresses": [],
        "warnings": "",
      })),
      "getblockchaininfo" => {
        let tip = self.tip_height();
        Ok(json!({
          "chain": self.chain.rpc_name(),
          "blocks": tip,
          "headers": tip,
          "bestblockhash": self.best.last().unwrap().to_string(),
          "difficulty": 1.0,
          "mediantime": self.blocks[self.best.last().unwrap()].block.header.time,
          "verificationprogress": 1.0,
          "initialblockdownload": false,
          "chainwork": "0000000000000000000000000000000000000000000000000000000000000002",
          "size_on_disk": 0,
          "pruned": false,
          "softforks": {},
          "warnings": "",
        }))
      }
      "getblockcount" => Ok(json!(self.tip_height())),
      "getbestblockhash" => Ok(json!(self.best.last().unwrap().to_string())),
      "getblockhash" => {
        let h = params.first().and_then(|v| v.as_u64()).unwrap_or(u64::MAX);
        match self.best.get(h as usize) {
          Some(hash) if h <= u64::from(u32::MAX) => Ok(json!(hash.to_string())),
          _ => Err(Self::not_found_height()),
        }
      }
      "getblock" => {
        let info = self.block_by_hash_param(params.first())?;
        let verbosity = params.get(1).and_then(|v| v.as_u64()).unwrap_or(1);
        if verbosity == 0 {
          Ok(json!(serialize_hex(&info.block)))
        } else {
          Err(RpcError {
            code: -32603,
            message: "simulated node: getblock verbosity > 0 not supported".into(),
          })
        }
      }
      "getblockheader" => {
        let info = self.block_by_hash_param(params.first())?;
        let verbose = params.get(1).and_then(|v| v.as_bool()).unwrap_or(true);
        if !verbose {
          return Ok(json!(serialize_hex(&info.block.header)));
        }
        let on_best = self.best.get(info.height as usize) == Some(&info.hash);
        let confirmations: i64 = if on_best {
          i64::from(self.tip_height() - info.height + 1)
        } else {
          -1
        };
        let h = &info.block.header;
        let mut v = json!({
          "hash": info.hash.to_string(),
          "confirmations": confirmations,
          "height": info.height,
          "version": h.version.to_consensus(),
          "versionHex": format!("{:08x}", h.version.to_consensus()),
          "merkleroot": h.merkle_root.to_string(),
          "time": h.time,
          "mediantime": h.time,
          "nonce": h.nonce,
          "bits": format!("{:08x}", h.bits.to_consensus()),
          "difficulty": 1.0,
          "chainwork": "0000000000000000000000000000000000000000000000000000000000000002",
          "nTx": info.block.txdata.len(),
        });
        if info.height > 0 {
          v["previousblockhash"] = json!(h.prev_blockhash.to_string());
        }
        if on_best && let Some(next) = self.best.get(info.height as usize + 1) {
          v["nextblockhash"] = json!(next.to_string());
        }
        Ok(v)
      }
      "getrawtransaction" => {
        let txid: Txid = params
          .first()
          .and_then(|v| v.as_str())
          .and_then(|s| s.parse().ok())
          .ok_or_else(Self::no_such_tx)?;
        let verbose = match params.get(1) {
          Some(Value::Bool(b)) => *b,
          Some(Value::Number(n)) => n.as_u64().unwrap_or(0) > 0,
          _ => false,
        };
        let containing = self.tx_on_best_chain(&txid).cloned();
        let tx = match (&containing, self.mempool.get(&txid)) {
          (Some(_), _) => self.txs.get(&txid).cloned(),
          (None, Some(tx)) => Some(tx.clone()),
          (None, None) => self
            .wallet_side
            .mempool
            .iter()
            .find(|t| t.compute_txid() == txid)
            .cloned(),
        };
        let Some(tx) = tx else {
          return Err(Self::no_such_tx());
        };
        if !verbose {
          return Ok(json!(serialize_hex(&tx)));
        }
        let mut v = json!({
          "hex": serialize_hex(&tx),
          "txid": txid.to_string(),
          "hash": tx.compute_wtxid().to_string(),
          "size": tx.total_size(),
          "vsize": tx.vsize(),
          "version": tx.version.0,
          "locktime": 0,
          "vin": tx.input.iter().map(|i| {
            if i.previous_output.is_null() {
              json!({"coinbase": hex::encode(i.script_sig.as_bytes()), "sequence": i.sequence.0})
            } else {
              json!({
                "txid": i.previous_output.txid.to_string(),
                "vout": i.previous_output.vout,
                "scriptSig": {"asm": "", "hex": hex::encode(i.script_sig.as_bytes())},
                "txinwitness": i.witness.iter().map(hex::encode).collect::<Vec<_>>(),
                "sequence": i.sequence.0,
              })
            }
          }).collect::<Vec<_>>(),
          "vout": tx.output.iter().enumerate().map(|(n, o)| {
            let mut spk = json!({
              "asm": "",
              "hex": hex::encode(o.script_pubkey.as_bytes()),
              "type": "nonstandard",
            });
            if let Ok(address) = bitcoin::Address::from_script(&o.script_pubkey, self.network) {
              spk["address"] = json!(address.to_string());
            }
            json!({
              "value": Amount::from_sat(o.value.to_sat()).to_btc(),
              "n": n,
              "scriptPubKey": spk,
            })
          }).collect::<Vec<_>>(),
        });
        if let Some(info) = containing {
          v["in_active_chain"] = json!(true);
          v["blockhash"] = json!(info.hash.to_string());
          v["confirmations"] = json!(self.tip_height() - info.height + 1);
          v["time"] = json!(info.block.header.time);
          v["blocktime"] = json!(info.block.header.time);
        }
        Ok(v)
      }
      "gettxout" => {
        let txid: Option<Txid> = params.first().and_then(|v| v.as_str()).and_then(|s| s.parse().ok());
        let vout = params.get(1).and_then(|v| v.as_u64()).unwrap_or(0) as u32;
        let Some(txid) = txid else {
          return Ok(Value::Null);
        };
        let include_mempool = params.get(2).and_then(|v| v.as_bool()).unwrap_or(true);
        let outpoint = OutPoint { txid, vout };
        if include_mempool && !self.wallet_side.mempool.is_empty() {
          return Ok(match self.spendable_view().get(&outpoint) {
            Some((o, h)) => {
              let mut spk = json!({
                "asm": "",
                "hex": hex::encode(o.script_pubkey.as_bytes()),
                "type": "nonstandard",
              });
              if let Ok(address) = bitcoin::Address::from_script(&o.script_pubkey, self.network) {
                spk["address"] = json!(address.to_string());
              }
              json!({
                "bestblock": self.best.last().unwrap().to_string(),
                "confirmations": h.map(|h| self.tip_height() - h + 1).unwrap_or(0),
                "value": o.value.to_btc(),
                "scriptPubKey": spk,
                "coinbase": false,
              })
            }
            None => Value::Null,
          });
        }
        let m = self.tip_model();
        match m.utxos.get(&outpoint) {
          Some(u) if !u.script.is_op_return() => {
            let mut spk = json!({
              "asm": "",
              "hex": hex::encode(u.script.as_bytes()),
              "type": "nonstandard",
            });
            if let Ok(address) = bitcoin::Address::from_script(&u.script, self.network) {
              spk["address"] = json!(address.to_string());
            }
            Ok(json!({
              "bestblock": self.best.last().unwrap().to_string(),
              "confirmations": self.tip_height() - u.height + 1,
              "value": Amount::from_sat(u.value).to_btc(),
              "scriptPubKey": spk,
              "coinbase": u.coinbase,
            }))
          }
          _ => Ok(Value::Null),
        }
      }
      "getblockstats" => {
        let h = params.first().and_then(|v| v.as_u64()).unwrap_or(u64::MAX);
        let Some(info) = self.block_at(h as u32).filter(|_| h <= u64::from(u32::MAX)) else {
          return Err(Self::not_found_height());
        };
        Ok(json!({
          "avgfee": 0, "avgfeerate": 0, "avgtxsize": 0,
          "blockhash": info.hash.to_string(),
          "feerate_percentiles": [0, 0, 0, 0, 0],
          "height": info.height,
          "ins": 0, "maxfee": 0, "maxfeerate": 0, "maxtxsize": 0, "medianfee": 0,
          "mediantime": info.block.header.time, "mediantxsize": 0,
          "minfee": 0, "minfeerate": 0, "mintxsize": 0, "outs": 0,
          "subsidy": subsidy(info.height),
          "swtotal_size": 0, "swtotal_weight": 0, "swtxs": 0,
          "time": info.block.header.time,
          "total_out": 0, "total_size": 0, "total_weight": 0, "totalfee": 0,
          "txs": info.block.txdata.len(),
          "utxo_increase": 0, "utxo_size_inc": 0,
        }))
      }
      other => Err(RpcError {
        code: -32601,
        message: format!("simulated node: method `{other}` not found"),
      }),
    }
  }
}

/// Helper for the generator: a deterministic printable blob.
pub fn blob(rng: &mut Rng, max: usize) -> Vec<u8> {
  let n = rng.usize(max + 1);
  rng.bytes(n)
}
