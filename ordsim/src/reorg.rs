//! C14: reorganisations within the recoverable depth are fully undone; others
//! are reported as unrecoverable; the update terminates.

use {
  crate::{
    check::{Ctx, RunReport, finish_report},
    exec::Exec,
    gen_::*,
    oracle::{self, v},
    rng::Rng,
    scenario::*,
  },
};

pub const EVENT_POINTS: &[&str] = &[
  "block.received",
  "commit.before",
  "commit.after_first",
  "commit.after_second",
  "savepoint.deleted",
  "savepoint.created",
  "commit.after_savepoints",
  "commit.done",
];

thread_local! {
  /// set by the generator for scenarios that stay within the recoverable depth
  static CALM: std::cell::Cell<bool> = const { std::cell::Cell::new(false) };
}

fn reorg_features() -> Features {
  Features {
    txs_per_block: (0, 2),
    envelopes: 35,
    runestones: 25,
    etchings: 40,
    mints: 40,
    edicts: 40,
    move_inscriptions: 30,
    move_runes: 30,
    coinbase_dup: 0,
    raw_garbage: 0,
    ..everything_features()
  }
}

/// Thorough tier: the first seeds of a batch enumerate, for one small
/// history, EVERY (named point, occurrence, depth) at which a reorganisation
/// can land inside the update.
fn gen_c14_enumerated(seed: u64) -> Option<Scenario> {
  let index = seed & 0xffff_ffff;
  let base = seed >> 32;
  if index >= 20_000 {
    return None;
  }
  let root = Rng::new(base.wrapping_mul(0x9e37_79b9).wrapping_add(1414));
  let mut crng = root.fork("config");
  let mut wrng = root.fork("workload");
  let mut config = gen_config(&mut crng);
  config.index_sats = crng.chance(1, 2);
  config.index_addresses = crng.chance(1, 2);
  config.index_runes = crng.chance(1, 2);
  config.commit_interval = match crng.below(3) {
    0 => 5000,
    _ => 1 + crng.below(3) as u32,
  };
  // ord can undo depths below (max savepoints - 1) x interval + height % interval
  config.savepoint_interval = 2 + crng.below(3) as u32;
  config.max_savepoints = 3 + crng.below(2) as u32;
  config.integration_test = false;
  let f = Features::swarm(&reorg_features(), &mut wrng);
  // long enough for every savepoint slot to be in use when the event lands
  let first = (config.savepoint_interval * config.max_savepoints) as usize + 1 + wrng.usize(3);
  let second = 3 + wrng.usize(4);
  let lag = crng.below(32) as u32;
  let mut ops = vec![
    Op::Mine(gen_chain(&mut wrng, &f, first)),
    Op::Update(UpdateSpec {
      lag: 31,
      ..Default::default()
    }),
    Op::Mine(gen_chain(&mut wrng, &f, second)),
    Op::Update(UpdateSpec {
      lag,
      ..Default::default()
    }),
    Op::Update(UpdateSpec {
      lag: 31,
      ..Default::default()
    }),
  ];
  let height = (first + second) as u32;
  // probe the update the event will land in
  let mut ex = Exec::new(&config, seed);
  let mut hits: Vec<(String, u32)> = Vec::new();
  for (i, op) in ops.iter().enumerate() {
    match op {
      Op::Mine(b) => ex.mine(b),
      Op::Update(u) => {
        let r = ex.update(u);
        if r.result.is_err() {
          ex.finish();
          return None;
        }
        if i == 3 {
          for (name, count) in &r.outcome.points {
            if EVENT_POINTS.contains(&name.as_str()) {
              hits.push((name.clone(), *count));
            }
          }
        }
      }
      _ => {}
    }
  }
  ex.finish();
  let max_depth = (config.savepoint_interval * config.max_savepoints).min(height);
  let mut positions: Vec<(String, u32, u32)> = Vec::new();
  for (name, count) in &hits {
    for nth in 0..*count {
      for depth in 1..=max_depth {
        positions.push((name.clone(), nth, depth));
      }
    }
  }
  let total = positions.len() as u64;
  if index >= total {
    return None;
  }
  let (point, nth, depth) = positions.swap_remove(index as usize);
  // the same new branch for the same depth, whatever the landing point
  let mut brng = root.fork("branch").fork(&depth.to_string());
  let blocks = gen_chain(&mut brng, &f, depth as usize + 1);
  if let Op::Update(u) = &mut ops[3] {
    u.node_events.push(PointEvent {
      point,
      nth,
      event: NodeEvent::Reorg { depth, blocks },
    });
  }
  Some(Scenario {
    seed,
    profile: format!("C14/enumerated total={total} index={index}"),
    config,
    ops,
    server: None,
  })
}

pub fn gen_c14(seed: u64, thorough: bool) -> Scenario {
  if thorough
    && let Some(sc) = gen_c14_enumerated(seed)
  {
    return sc;
  }
  let root = Rng::new(seed);
  let mut crng = root.fork("config");
  let mut wrng = root.fork("workload");
  let mut srng = root.fork("schedule");
  let mut config = gen_config(&mut crng);
  config.index_sats = crng.chance(1, 2);
  config.index_addresses = crng.chance(1, 2);
  config.index_runes = crng.chance(1, 2);
  config.commit_interval = match crng.below(3) {
    0 => 5000,
    _ => 1 + crng.below(8) as u32,
  };
  config.savepoint_interval = 1 + crng.below(12) as u32;
  config.max_savepoints = if crng.chance(1, 5) { 1 } else { 2 + crng.below(3) as u32 };
  config.integration_test = crng.chance(1, 4);
  let f = Features::swarm(&reorg_features(), &mut wrng);

  CALM.with(|c| c.set(srng.chance(3, 5)));
  let mut ops = Vec::new();
  let mut height = 0u32; // node tip
  let rounds = 1 + srng.usize(if thorough { 5 } else { 3 });
  for round in 0..rounds {
    // growth
    let grow = match srng.below(4) {
      0 => 1 + srng.usize(3),
      1 => 20 + srng.usize(if thorough { 60 } else { 30 }),
      _ => 3 + srng.usize(18),
    };
    ops.push(Op::Mine(gen_chain(&mut wrng, &f, grow)));
    height += grow as u32;

    let mut u = UpdateSpec {
      lag: match srng.below(3) {
        0 => 0,
        1 => 31,
        _ => srng.below(32) as u32,
      },
      ..Default::default()
    };
    // sometimes index only part of it first, so that the index is far behind
    if srng.chance(1, 5) && grow > 4 {
      ops.push(Op::Update(UpdateSpec {
        height_limit: Some(height + 1 - srng.below(grow as u64 - 1) as u32),
        lag: 31,
        ..Default::default()
      }));
    }
    // a node event inside the update
    if srng.chance(1, 2) {
      let depth = reorg_depth(&mut srng, height, &config);
      let extra = 1 + srng.usize(3);
      let blocks = gen_chain(&mut wrng, &f, depth as usize + extra);
      let event = if srng.chance(1, 5) {
        NodeEvent::Mine(gen_chain(&mut wrng, &f, 1 + srng.usize(4)))
      } else {
        NodeEvent::Reorg { depth, blocks }
      };
      match &event {
        NodeEvent::Mine(b) => height += b.len() as u32,
        NodeEvent::Reorg { depth, blocks } => height = height - (*depth).min(height) + blocks.len() as u32,
      }
      u.node_events.push(PointEvent {
        point: srng.pick(EVENT_POINTS).to_string(),
        nth: srng.below(if grow > 10 { 12 } else { 3 }) as u32,
        event,
      });
    }
    ops.push(Op::Update(u));

    // a reorganisation between updates
    if srng.chance(3, 4) || round + 1 == rounds {
      let depth = reorg_depth(&mut srng, height, &config);
      let extra = 1 + srng.usize(3);
      let blocks = gen_chain(&mut wrng, &f, depth as usize + extra);
      height = height - depth.min(height) + blocks.len() as u32;
      ops.push(Op::Reorg { depth, blocks });
      ops.push(Op::Update(UpdateSpec {
        lag: srng.below(32) as u32,
        ..Default::default()
      }));
      if srng.chance(1, 4) {
        // a reorganisation of the reorganised chain, before the next poll
        let depth = reorg_depth(&mut srng, height, &config);
        let blocks = gen_chain(&mut wrng, &f, depth as usize + 1);
        height = height - depth.min(height) + blocks.len() as u32;
        ops.push(Op::Reorg { depth, blocks });
      }
    }
  }
  ops.push(Op::Update(UpdateSpec {
    lag: 31,
    ..Default::default()
  }));
  CALM.with(|c| c.set(false));
  Scenario {
    seed,
    profile: "C14/reorg".into(),
    config,
    ops,
    server: None,
  }
}

fn reorg_depth(rng: &mut Rng, height: u32, config: &Config) -> u32 {
  let span = config.savepoint_interval * config.max_savepoints;
  if CALM.with(|c| c.get()) {
    // every reorganisation of this scenario is one ord should be able to undo,
    // so that the run ends with the comparison against a from-scratch index
    let undoable = (config.savepoint_interval * config.max_savepoints.saturating_sub(1)).saturating_sub(2).max(1);
    return (1 + rng.below(u64::from(undoable)) as u32).min(height.max(1));
  }
  // ord counts from the first block it cannot connect: a reorganisation that abandons d blocks has depth d + 1 there
  let undoable = (config.savepoint_interval * config.max_savepoints.saturating_sub(1)).saturating_sub(2).max(1);
  let d = match rng.below(9) {
    0 => 1,
    1 => 1 + rng.below(3) as u32,
    // what ord classifies as recoverable when the savepoints are in place
    6..=8 => 1 + rng.below(u64::from(undoable)) as u32,
    // around what ord considers recoverable
    2 | 3 => (span + rng.below(5) as u32).saturating_sub(2).max(1),
    4 => 1 + rng.below(u64::from(span.max(1))) as u32,
    _ => 1 + rng.below(30) as u32,
  };
  d.min(height.max(1))
}

pub fn run_c14(sc: &Scenario) -> RunReport {
  let start = std::time::Instant::now();
  let mut ctx = Ctx {
    property: "C14".into(),
    report: RunReport {
      seed: sc.seed,
      property: "C14".into(),
      profile: sc.profile.clone(),
      ..Default::default()
    },
    oracle_rng: Rng::new(sc.seed).fork("oracle"),
  };
  let mut ex = Exec::new(&sc.config, sc.seed);
  let mut unrecoverable = false;
  let mut stop = false;
  let mut recovered = 0u64;

  // after the last node event only quiet updates follow
  let last_event = sc
    .ops
    .iter()
    .rposition(|op| match op {
      Op::Reorg { .. } | Op::Mine(_) => true,
      Op::Update(u) => !u.node_events.is_empty(),
      _ => false,
    })
    .unwrap_or(0);

  for (i, op) in sc.ops.iter().enumerate() {
    if stop || unrecoverable {
      break;
    }
    match op {
      Op::Mine(b) => ex.mine(b),
      Op::Reorg { depth, blocks } => {
        ex.reorg(*depth, blocks);
      }
      Op::Reopen => {
        if ex.is_open() {
          ex.reopen().ok();
        }
      }
      Op::Update(u) => {
        let quiet = i > last_event;
        let attempts = if quiet { 3 } else { 1 };
        let mut last_err = None;
        for attempt in 0..attempts {
          let spec = if attempt == 0 {
            u.clone()
          } else {
            UpdateSpec {
              lag: u.lag,
              ..Default::default()
            }
          };
          let r = ex.update(&spec);
          recovered += r.outcome.points.get("reorg.after").copied().unwrap_or(0) as u64;
          if !r.panics.is_empty() {
            ctx.report.violations.push(v(
              "C14",
              "panic",
              format!("update panicked: {:?} (result {:?})", r.panics, r.result),
            ));
            stop = true;
            break;
          }
          if r.outcome.budget_exhausted {
            ctx.report.violations.push(v(
              "C14",
              "update_does_not_terminate",
              format!(
                "step budget exhausted: {} rollbacks, points {:?}",
                r.outcome.points.get("reorg.before").copied().unwrap_or(0),
                r.outcome.points
              ),
            ));
            stop = true;
            break;
          }
          match &r.result {
            Ok(()) => {
              last_err = None;
              break;
            }
            Err(e) if r.unrecoverable => {
              unrecoverable = true;
              let flagged = ex
                .index()
                .status(false)
                .map(|s| s.unrecoverably_reorged)
                .unwrap_or(false);
              if !flagged {
                ctx.report.violations.push(v(
                  "C14",
                  "unrecoverable_not_flagged",
                  format!("update returned `{e}` but the status does not flag it"),
                ));
              }
              last_err = None;
              break;
            }
            Err(e) => {
              // tolerated while the node was changing; must not persist on a quiet node
              last_err = Some(e.clone());
              if !quiet {
                break;
              }
            }
          }
        }
        if let Some(e) = last_err
          && quiet
        {
          ctx.report.violations.push(v(
            "C14",
            "error_persists_on_quiet_node",
            format!("three consecutive updates on an unchanged node failed, last: {e}"),
          ));
          stop = true;
        }
      }
      _ => {}
    }
  }

  let mut final_digest = 0;
  let mut subject = None;
  let mut subject_count = 0;
  if !stop && !unrecoverable && ex.is_open() {
    if let Ok(d) = ex.index().verif_dump() {
      let m = oracle::masked(&d);
      final_digest = oracle::digest(&m);
      subject_count = ex.index().block_count().unwrap_or(0);
      subject = Some(m);
    }
  }
  let (world_log, tip, tip_count) = ex.sim.snapshot(|s| {
    (
      s.world_log.clone(),
      *s.world.best.last().unwrap(),
      s.world.best.len() as u32,
    )
  });
  if let Some(rest) = sc.profile.strip_prefix("C14/enumerated ") {
    for part in rest.split_whitespace() {
      if let Some((k, val)) = part.split_once('=')
        && let Ok(n) = val.parse::<u64>()
      {
        ctx.report.facts.insert(format!("c14.enum.{k}"), n);
      }
    }
  }
  ctx.report.facts.insert("reorg.rollbacks".into(), recovered);
  ctx.report.facts.insert("reorg.unrecoverable".into(), u64::from(unrecoverable));
  let facts = std::mem::take(&mut ctx.report.facts);
  let report = finish_report(ex, std::mem::take(&mut ctx.report), sc, final_digest);
  ctx.report = report;
  ctx.report.facts.extend(facts);

  if let Some(subject) = subject
    && ctx.report.harness_error.is_none()
  {
    // from scratch on the final best chain
    let mut ex = Exec::new(&sc.config, sc.seed);
    ex.sim.snapshot(|s| {
      for e in &world_log {
        s.world.apply_event(e);
      }
    });
    let same_chain = ex.sim.snapshot(|s| *s.world.best.last().unwrap() == tip);
    if !same_chain {
      ctx.report.harness_error = Some("reference world did not reproduce the best chain".into());
    } else {
      let r = ex.update(&UpdateSpec {
        lag: 31,
        ..Default::default()
      });
      if r.result.is_err() || !r.panics.is_empty() {
        ctx.report.inconclusive = Some(format!("from-scratch index failed: {:?} {:?}", r.result, r.panics));
      } else if let Ok(d) = ex.index().verif_dump() {
        ctx.report.checks += 1;
        let reference = oracle::masked(&d);
        if subject_count != tip_count {
          ctx.report.violations.push(v(
            "C14",
            "tip_not_reached",
            format!("update returned Ok with the index at {subject_count} blocks, best chain has {tip_count}"),
          ));
        } else if reference != subject {
          let detail = oracle::diff(&reference, &subject).unwrap_or_default();
          ctx.report.violations.push(v(
            "C14",
            "not_equal_to_from_scratch",
            format!("after the reorganisation(s) the index differs from one built from scratch on the best chain: {detail}"),
          ));
        }
      }
    }
    ex.finish();
  } else if unrecoverable {
    ctx.report.checks += 1;
  }
  ctx.report.nontrivial = ctx.report.checks > 0
    && ctx.report.facts.get("world.reorgs").copied().unwrap_or(0) > 0
    && (recovered > 0 || unrecoverable);
  ctx.report.wall_us = start.elapsed().as_micros() as u64;
  ctx.report
}
