//! Tier 2: the real explorer router, driven in-process (no socket).

use {
  crate::exec::Exec,
  axum::body::Body,
  http::{HeaderMap, Request, StatusCode},
  http_body_util::BodyExt,
  serde_json::Value,
  tower::ServiceExt,
};

#[derive(Clone, Debug, Default, PartialEq, Eq, serde::Serialize, serde::Deserialize)]
pub struct ServerOpts {
  pub csp_origin: Option<String>,
  pub decompress: bool,
  /// indices into the known inscription ids (modulo) to hide
  pub hidden: Vec<u32>,
}

pub struct Web {
  router: axum::Router,
  rt: tokio::runtime::Runtime,
  pub requests: u64,
}

pub struct Reply {
  pub status: StatusCode,
  pub headers: HeaderMap,
  pub body: Vec<u8>,
}

impl Reply {
  pub fn json(&self) -> Option<Value> {
    serde_json::from_slice(&self.body).ok()
  }

  pub fn header(&self, name: &str) -> Option<String> {
    self
      .headers
      .get(name)
      .map(|v| String::from_utf8_lossy(v.as_bytes()).to_string())
  }

  pub fn headers_all(&self, name: &str) -> Vec<String> {
    self
      .headers
      .get_all(name)
      .iter()
      .map(|v| String::from_utf8_lossy(v.as_bytes()).to_string())
      .collect()
  }
}

impl Web {
  /// Build the explorer around the executor's open index.
  pub fn start(ex: &Exec, opts: &ServerOpts, hidden_ids: &[String]) -> Result<Self, String> {
    let dir = ex.scratch_dir();
    std::fs::create_dir_all(&dir).ok();
    let config_path = dir.join("server.yaml");
    let mut yaml = String::from("hidden:\n");
    for id in hidden_ids {
      yaml += &format!("- {id}\n");
    }
    if hidden_ids.is_empty() {
      yaml = "hidden: []\n".into();
    }
    std::fs::write(&config_path, yaml).map_err(|e| e.to_string())?;
    let c = &ex.config;
    let mut args = format!(
      "ord {} --bitcoin-rpc-url sim.invalid:1 --bitcoin-rpc-username sim --bitcoin-rpc-password sim --bitcoin-data-dir {} --data-dir {} --index {} --config {} --index-cache-size {}",
      c.chain.flag(),
      dir.join("bitcoin").display(),
      dir.display(),
      dir.join("index.redb").display(),
      config_path.display(),
      c.index_cache_size,
    );
    if c.index_sats {
      args += " --index-sats";
    }
    if c.index_addresses {
      args += " --index-addresses";
    }
    if c.index_runes {
      args += " --index-runes";
    }
    if c.index_transactions {
      args += " --index-transactions";
    }
    args += " server --no-sync --http-port 0 --address 127.0.0.1";
    if let Some(origin) = &opts.csp_origin {
      args += &format!(" --csp-origin {origin}");
    }
    if opts.decompress {
      args += " --decompress";
    }
    let (settings, server) = ord::parse_ord_server_args(&args);
    ex.sim.snapshot(|s| s.router = None);
    let index = ex.index_arc();
    let result = std::panic::catch_unwind(std::panic::AssertUnwindSafe(|| {
      server.run(settings, index, axum_server::Handle::new(), None)
    }));
    match result {
      Ok(Ok(_)) => {}
      Ok(Err(e)) => return Err(format!("Server::run failed: {e}")),
      Err(_) => return Err(format!("Server::run panicked: {:?}", crate::exec::take_panics())),
    }
    let router = ex
      .sim
      .snapshot(|s| s.router.take())
      .ok_or("Server::run did not hand over a router")?;
    let rt = tokio::runtime::Builder::new_multi_thread()
      .worker_threads(2)
      .enable_all()
      .build()
      .map_err(|e| e.to_string())?;
    Ok(Self {
      router,
      rt,
      requests: 0,
    })
  }

  pub fn get(&mut self, path: &str, headers: &[(&str, &str)]) -> Reply {
    self.requests += 1;
    let mut req = Request::builder().method("GET").uri(path);
    for (k, v) in headers {
      req = req.header(*k, *v);
    }
    let req = req.body(Body::empty()).unwrap();
    let router = self.router.clone();
    self.rt.block_on(async move {
      let response = router.oneshot(req).await.unwrap();
      let status = response.status();
      let headers = response.headers().clone();
      let body = response
        .into_body()
        .collect()
        .await
        .map(|b| b.to_bytes().to_vec())
        .unwrap_or_default();
      Reply {
        status,
        headers,
        body,
      }
    })
  }

  /// Serve the router on a loopback socket (tier 3: the wallet talks to the
  /// explorer over HTTP). Returns the port.
  pub fn serve(&mut self) -> Result<u16, String> {
    let router = self.router.clone();
    let listener = self
      .rt
      .block_on(async { tokio::net::TcpListener::bind("127.0.0.1:0").await })
      .map_err(|e| e.to_string())?;
    let port = listener.local_addr().map_err(|e| e.to_string())?.port();
    self.rt.spawn(async move {
      axum::serve(listener, router).await.ok();
    });
    Ok(port)
  }

  pub fn get_json(&mut self, path: &str) -> Reply {
    self.get(path, &[("accept", "application/json")])
  }
}
