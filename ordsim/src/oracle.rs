//! State oracles: compare the real index with the reference model (or with
//! itself, for the model-free invariants). Each function checks exactly what
//! one property states and returns the clauses that failed.

use {
  crate::{
    model::{self, Model, first_sat, normalize, subsidy},
    rng::Rng,
  },
  bitcoin::{OutPoint, Txid, hashes::Hash},
  ord::{Index, InscriptionId},
  ordinals::{Charm, Rune, RuneId, Sat, SatPoint},
  serde::{Deserialize, Serialize},
  std::collections::{BTreeMap, BTreeSet},
};

#[derive(Clone, Debug, Serialize, Deserialize, PartialEq, Eq)]
pub struct Violation {
  pub property: String,
  /// which clause of the property failed; stable across shrinking
  pub class: String,
  pub detail: String,
}

pub fn v(property: &str, class: &str, detail: String) -> Violation {
  Violation {
    property: property.into(),
    class: format!("{property}.{class}"),
    detail,
  }
}

pub const STAT_BLESSED: u64 = 1;
pub const STAT_COMMITS: u64 = 2;
pub const STAT_CURSED: u64 = 3;
pub const STAT_INITIAL_SYNC_TIME: u64 = 9;
pub const STAT_LOST_SATS: u64 = 10;
pub const STAT_RESERVED_RUNES: u64 = 12;
pub const STAT_RUNES: u64 = 13;
pub const STAT_UNBOUND: u64 = 16;
pub const STAT_LAST_SAVEPOINT_HEIGHT: u64 = 17;

pub fn unbound_outpoint() -> OutPoint {
  OutPoint {
    txid: Txid::all_zeros(),
    vout: 0,
  }
}

type R<T> = Result<T, String>;

fn e<T, E: std::fmt::Display>(r: Result<T, E>) -> R<T> {
  r.map_err(|e| format!("index query failed: {e:#}"))
}

// ------------------------------------------------------------------------ C01

/// Sat ranges of every unspent output and of the lost-sats pseudo-output are
/// those of the BIP algorithm.
pub fn c01(index: &Index, m: &Model, out: &mut Vec<Violation>) -> R<()> {
  const P: &str = "C01";
  for (outpoint, utxo) in &m.utxos {
    let got = e(index.list(*outpoint))?;
    let want = normalize(&utxo.ranges);
    match got {
      None => out.push(v(P, "missing_output", format!("{outpoint}: no ranges listed, model has {want:?}"))),
      Some(got) => {
        if normalize(&got) != want {
          out.push(v(
            P,
            "wrong_ranges",
            format!("{outpoint}: index {:?} model {want:?}", normalize(&got)),
          ));
        }
      }
    }
  }
  let lost = normalize(&e(index.list(OutPoint::null()))?.unwrap_or_default());
  if lost != normalize(&m.lost) {
    out.push(v(
      P,
      "wrong_lost_ranges",
      format!("lost: index {lost:?} model {:?}", normalize(&m.lost)),
    ));
  }
  // nothing else holds sats
  for outpoint in e(index.verif_outpoints())? {
    if outpoint == OutPoint::null() || outpoint == unbound_outpoint() {
      continue;
    }
    if !m.utxos.contains_key(&outpoint) {
      let ranges = e(index.list(outpoint))?.unwrap_or_default();
      out.push(v(
        P,
        "extra_output",
        format!("{outpoint} is listed with {ranges:?} but is not unspent in the model"),
      ));
    }
  }
  Ok(())
}

// ------------------------------------------------------------------------ C02

/// Partition of the supply, per-output sums, and agreement of all sat lookups.
pub fn c02(index: &Index, m: &Model, rng: &mut Rng, out: &mut Vec<Violation>) -> R<()> {
  const P: &str = "C02";
  let height = m.height.unwrap();
  let count = e(index.block_count())?;
  if count != height + 1 {
    return Err(format!("harness: index at {count} blocks, model at {}", height + 1));
  }
  let supply = first_sat(height + 1);

  // the partition, from the index alone
  let mut all: Vec<(u64, u64, OutPoint, u64)> = Vec::new(); // start, end, outpoint, offset
  let outpoints = e(index.verif_outpoints())?;
  for outpoint in &outpoints {
    if *outpoint == unbound_outpoint() {
      continue;
    }
    let ranges = e(index.list(*outpoint))?.unwrap_or_default();
    let mut offset = 0;
    for (a, b) in &ranges {
      if a >= b {
        out.push(v(P, "empty_or_inverted_range", format!("{outpoint}: ({a},{b})")));
        continue;
      }
      all.push((*a, *b, *outpoint, offset));
      offset += b - a;
    }
    // per-output sum equals the output value on chain (model's chain data)
    if *outpoint != OutPoint::null() {
      if let Some(u) = m.utxos.get(outpoint) {
        if offset != u.value {
          out.push(v(
            P,
            "sum_not_value",
            format!("{outpoint}: ranges add up to {offset}, output value is {}", u.value),
          ));
        }
      }
    }
  }
  all.sort();
  let mut covered = 0u64;
  for w in all.windows(2) {
    if w[0].1 > w[1].0 {
      out.push(v(
        P,
        "overlap",
        format!("({},{}) in {} overlaps ({},{}) in {}", w[0].0, w[0].1, w[0].2, w[1].0, w[1].1, w[1].2),
      ));
    }
  }
  for r in &all {
    covered += r.1 - r.0;
    if r.1 > supply {
      out.push(v(P, "beyond_supply", format!("({},{}) in {} exceeds supply {supply}", r.0, r.1, r.2)));
    }
  }
  if covered + m.destroyed != supply {
    out.push(v(
      P,
      "not_a_partition",
      format!("ranges cover {covered} sats, {} destroyed by duplicate txids, supply is {supply}", m.destroyed),
    ));
  }
  let stats = e(index.verif_statistics())?;
  let lost_len: u64 = all
    .iter()
    .filter(|r| r.2 == OutPoint::null())
    .map(|r| r.1 - r.0)
    .sum();
  let lost_stat = stats.get(&STAT_LOST_SATS).copied().unwrap_or(0);
  if lost_stat != lost_len {
    out.push(v(
      P,
      "lost_sats_statistic",
      format!("statistic says {lost_stat}, lost pseudo-output holds {lost_len}"),
    ));
  }

  // lookups: boundaries of every range, interior samples, un-indexed sats
  let locate = |sat: u64| -> Option<(OutPoint, u64)> {
    all
      .iter()
      .find(|r| r.0 <= sat && sat < r.1)
      .map(|r| (r.2, r.3 + sat - r.0))
  };
  let mut probes: BTreeSet<u64> = BTreeSet::new();
  // `find` scans the whole table: bound the number of lookups per check
  let budget = 48usize;
  let mut boundary: Vec<u64> = Vec::new();
  for r in &all {
    boundary.push(r.0);
    boundary.push(r.1 - 1);
  }
  while probes.len() < budget / 2 && !boundary.is_empty() {
    let i = rng.usize(boundary.len());
    probes.insert(boundary.swap_remove(i));
  }
  for _ in 0..budget / 2 {
    if supply > 0 {
      probes.insert(rng.below(supply));
    }
  }
  for sat in probes {
    let got = e(index.find(Sat(sat)))?;
    let want = locate(sat);
    let got_t = got.map(|sp| (sp.outpoint, sp.offset));
    if got_t != want {
      out.push(v(
        P,
        "find_disagrees",
        format!("find({sat}) = {got_t:?}, partition says {want:?}"),
      ));
    }
  }
  // sats of blocks not yet indexed
  for k in 0..3u32 {
    let h = height + 1 + k * 7;
    if subsidy(h) == 0 {
      continue;
    }
    let sat = first_sat(h) + rng.below(subsidy(h));
    if let Some(sp) = e(index.find(Sat(sat)))? {
      out.push(v(
        P,
        "unmined_sat_found",
        format!("find({sat}) of un-indexed height {h} = {sp}"),
      ));
    }
  }
  // find_range on a few intervals
  for _ in 0..4 {
    if supply < 2 {
      break;
    }
    let a = rng.below(supply - 1);
    let len = 1 + rng.below((supply - a).min(3 * 50 * model::COIN));
    let b = a + len;
    let got = e(index.find_range(Sat(a), Sat(b)))?;
    let Some(got) = got else {
      out.push(v(P, "find_range_none", format!("find_range({a},{b}) = None below the supply")));
      continue;
    };
    let mut got: Vec<(u64, u64, OutPoint, u64)> = got
      .iter()
      .map(|o| (o.start, o.size, o.satpoint.outpoint, o.satpoint.offset))
      .collect();
    got.sort();
    let mut want: Vec<(u64, u64, OutPoint, u64)> = all
      .iter()
      .filter(|r| r.1 > a && r.0 < b)
      .map(|r| {
        let s = r.0.max(a);
        let e = r.1.min(b);
        (s, e - s, r.2, r.3 + s - r.0)
      })
      .collect();
    want.sort();
    if got != want {
      out.push(v(
        P,
        "find_range_disagrees",
        format!("find_range({a},{b}) = {got:?}, partition says {want:?}"),
      ));
    }
  }
  // rare-sat table: first sat of every indexed block with a subsidy
  let rare = e(index.rare_sat_satpoints())?;
  let rare_map: BTreeMap<u64, SatPoint> = rare.iter().map(|(s, p)| (s.0, *p)).collect();
  for h in 0..=height {
    if subsidy(h) == 0 {
      continue;
    }
    let sat = first_sat(h);
    let want = locate(sat);
    let got = rare_map.get(&sat).map(|p| (p.outpoint, p.offset));
    if want.is_some() && got != want {
      out.push(v(
        P,
        "rare_sat_table",
        format!("first sat {sat} of block {h}: table {got:?}, partition {want:?}"),
      ));
    }
  }
  for (sat, p) in &rare_map {
    if let Some(want) = locate(*sat) {
      if (p.outpoint, p.offset) != want {
        out.push(v(
          P,
          "rare_sat_table_stale",
          format!("rare sat {sat}: table {p}, partition {want:?}"),
        ));
      }
    }
  }
  Ok(())
}

// ------------------------------------------------------------------------ C17

pub fn c17(index: &Index, m: &Model, network: bitcoin::Network, out: &mut Vec<Violation>) -> R<()> {
  const P: &str = "C17";
  let mut want: BTreeSet<(Vec<u8>, OutPoint)> = BTreeSet::new();
  for (o, u) in &m.utxos {
    want.insert((u.script.as_bytes().to_vec(), *o));
  }
  let got: BTreeSet<(Vec<u8>, OutPoint)> = e(index.verif_script_pubkey_outpoints())?
    .into_iter()
    .filter(|(_, o)| *o != OutPoint::null() && *o != unbound_outpoint())
    .collect();
  for x in want.difference(&got) {
    out.push(v(P, "unspent_not_listed", format!("script {} output {}", hex::encode(&x.0), x.1)));
  }
  for x in got.difference(&want) {
    out.push(v(P, "spent_or_foreign_listed", format!("script {} output {}", hex::encode(&x.0), x.1)));
  }
  // through the address API
  let mut by_script: BTreeMap<&bitcoin::ScriptBuf, BTreeSet<OutPoint>> = BTreeMap::new();
  for (o, u) in &m.utxos {
    by_script.entry(&u.script).or_default().insert(*o);
  }
  for (script, outpoints) in &by_script {
    if let Ok(address) = bitcoin::Address::from_script(script, network) {
      let got: BTreeSet<OutPoint> = e(index.get_address_info(&address))?.into_iter().collect();
      if &got != outpoints {
        out.push(v(
          P,
          "address_info",
          format!("{address}: index {got:?}, unspent outputs {outpoints:?}"),
        ));
      }
    }
  }
  // recorded script and value
  for (o, u) in &m.utxos {
    match e(index.verif_utxo_entry(*o))? {
      None => out.push(v(P, "entry_missing", format!("{o}"))),
      Some((_, value, script, _)) => {
        if value != u.value {
          out.push(v(P, "entry_value", format!("{o}: recorded {value}, created with {}", u.value)));
        }
        if script.as_deref() != Some(u.script.as_bytes()) {
          out.push(v(
            P,
            "entry_script",
            format!("{o}: recorded {:?}, created with {}", script.map(hex::encode), hex::encode(u.script.as_bytes())),
          ));
        }
      }
    }
  }
  Ok(())
}

// ---------------------------------------------------------------- inscriptions

pub struct InscrView {
  pub entries: Vec<(InscriptionId, i32, u32, u16, Option<u64>, Vec<u32>, u32, u64, Option<SatPoint>)>,
}

fn charm(charms: u16, c: Charm) -> bool {
  c.is_set(charms)
}

/// C03: bound inscriptions are where their sat is; burned / lost / unbound.
pub fn c03(index: &Index, m: &Model, has_sats: bool, out: &mut Vec<Violation>) -> R<()> {
  const P: &str = "C03";
  for i in &m.inscr.list {
    let entry = e(index.get_inscription_entry(i.id))?;
    let Some(entry) = entry else {
      out.push(v(P, "inscription_missing", format!("{} not in the index", i.id)));
      continue;
    };
    let satpoint = e(index.get_inscription_satpoint_by_id(i.id))?;
    let Some(satpoint) = satpoint else {
      out.push(v(P, "no_location", format!("{} has no location", i.id)));
      continue;
    };
    match i.sat {
      None => {
        if satpoint.outpoint != unbound_outpoint() {
          out.push(v(
            P,
            "unbound_not_at_unbound_output",
            format!("{} ({}) is at {satpoint}", i.id, i.unbound_reason.unwrap_or("")),
          ));
        }
        if entry.sat.is_some() {
          out.push(v(P, "unbound_has_sat", format!("{} has sat {:?}", i.id, entry.sat)));
        }
      }
      Some(sat) => {
        if has_sats && entry.sat != Some(Sat(sat)) {
          out.push(v(
            P,
            "wrong_sat",
            format!("{}: index sat {:?}, model sat {sat}", i.id, entry.sat.map(|s| s.0)),
          ));
        }
        let want = m.locate(sat);
        match want {
          None => out.push(v(P, "model_sat_nowhere", format!("{}: sat {sat} not in the model partition", i.id))),
          Some((outpoint, offset)) => {
            if (satpoint.outpoint, satpoint.offset) != (outpoint, offset) {
              out.push(v(
                P,
                "not_with_its_sat",
                format!("{}: index {satpoint}, its sat {sat} is at {outpoint}:{offset}", i.id),
              ));
            }
            if has_sats {
              let found = e(index.find(Sat(sat)))?;
              if found != Some(satpoint) {
                out.push(v(
                  P,
                  "sat_index_disagrees",
                  format!("{}: location {satpoint}, find({sat}) = {found:?}", i.id),
                ));
              }
            }
            if outpoint == OutPoint::null() {
              // lost to fees: reported as lost = located at the null outpoint
              // (checked above)
            } else if let Some(u) = m.utxos.get(&outpoint)
              && u.script.is_op_return()
              && !charm(entry.charms, Charm::Burned)
            {
              out.push(v(
                P,
                "burned_not_charmed",
                format!("{} sits in OP_RETURN output {outpoint} without the burned charm", i.id),
              ));
            }
          }
        }
      }
    }
  }
  Ok(())
}

/// C04: never duplicated or dropped (model-free) + envelope count.
pub fn c04(index: &Index, m: &Model, out: &mut Vec<Violation>) -> R<()> {
  const P: &str = "C04";
  let entries = e(index.verif_inscription_entries())?;
  let n = entries.len();
  // each sequence number in exactly one UTXO entry
  let mut holder: BTreeMap<u32, Vec<(OutPoint, u64)>> = BTreeMap::new();
  for outpoint in e(index.verif_outpoints())? {
    let Some((_, value, _, inscriptions)) = e(index.verif_utxo_entry(outpoint))? else {
      continue;
    };
    let special = outpoint == OutPoint::null() || outpoint == unbound_outpoint();
    for (seq, offset) in &inscriptions {
      holder.entry(*seq).or_default().push((outpoint, *offset));
      if !special && *offset >= value && !(value == 0 && *offset == 0) {
        out.push(v(
          P,
          "offset_beyond_value",
          format!("inscription seq {seq} at {outpoint}:{offset}, output value {value}"),
        ));
      }
      if !special && value == 0 {
        out.push(v(
          P,
          "offset_beyond_value",
          format!("inscription seq {seq} at {outpoint}:{offset} in a zero-value output"),
        ));
      }
    }
    // the output lists exactly these
    let listed = e(index.get_inscriptions_for_output(outpoint))?.unwrap_or_default();
    let mut want: Vec<InscriptionId> = inscriptions
      .iter()
      .filter_map(|(seq, _)| entries.get(*seq as usize).map(|(e, _)| e.id))
      .collect();
    let mut got = listed.clone();
    want.sort();
    got.sort();
    if want != got {
      out.push(v(
        P,
        "output_listing",
        format!("{outpoint}: lists {got:?}, entry holds {want:?}"),
      ));
    }
  }
  for (i, (entry, satpoint)) in entries.iter().enumerate() {
    let seq = i as u32;
    if entry.sequence_number != seq {
      out.push(v(P, "sequence_gap", format!("row {i} has sequence number {}", entry.sequence_number)));
    }
    match holder.get(&seq).map(|h| h.as_slice()) {
      None | Some([]) => out.push(v(P, "dropped", format!("{} (seq {seq}) is held by no output", entry.id))),
      Some([(outpoint, offset)]) => {
        let want = SatPoint {
          outpoint: *outpoint,
          offset: *offset,
        };
        if *satpoint != Some(want) {
          out.push(v(
            P,
            "location_table_disagrees",
            format!("{} (seq {seq}): location table {satpoint:?}, held at {want}", entry.id),
          ));
        }
      }
      Some(many) => out.push(v(P, "duplicated", format!("{} (seq {seq}) is held by {many:?}", entry.id))),
    }
  }
  for seq in holder.keys() {
    if *seq as usize >= n {
      out.push(v(P, "phantom", format!("sequence number {seq} held by an output has no entry")));
    }
  }
  let stats = e(index.verif_statistics())?;
  let blessed = stats.get(&STAT_BLESSED).copied().unwrap_or(0);
  let cursed = stats.get(&STAT_CURSED).copied().unwrap_or(0);
  if blessed + cursed != n as u64 {
    out.push(v(
      P,
      "statistics",
      format!("blessed {blessed} + cursed {cursed} != {n} entries"),
    ));
  }
  if n as u64 != m.inscr.envelope_count {
    out.push(v(
      P,
      "envelope_count",
      format!("{n} inscriptions, parser finds {} envelopes", m.inscr.envelope_count),
    ));
  }
  Ok(())
}

/// C05: numbers, sequence numbers and ids dense, unique, consistent.
pub fn c05(index: &Index, m: &Model, jubilee: u32, out: &mut Vec<Violation>) -> R<()> {
  const P: &str = "C05";
  let entries = e(index.verif_inscription_entries())?;
  let mut next_blessed = 0i32;
  let mut next_cursed = -1i32;
  let mut by_tx: BTreeMap<Txid, Vec<(u32, u32)>> = BTreeMap::new(); // txid -> (index, seq)
  for (i, (entry, _)) in entries.iter().enumerate() {
    if entry.sequence_number != i as u32 {
      out.push(v(P, "sequence_not_dense", format!("row {i}: {}", entry.sequence_number)));
    }
    if entry.inscription_number >= 0 {
      if entry.inscription_number != next_blessed {
        out.push(v(
          P,
          "blessed_numbers_not_dense",
          format!("{} seq {i} has number {}, expected {next_blessed}", entry.id, entry.inscription_number),
        ));
      }
      next_blessed = entry.inscription_number + 1;
    } else {
      if entry.inscription_number != next_cursed {
        out.push(v(
          P,
          "cursed_numbers_not_dense",
          format!("{} seq {i} has number {}, expected {next_cursed}", entry.id, entry.inscription_number),
        ));
      }
      next_cursed = entry.inscription_number - 1;
      if entry.height >= jubilee {
        out.push(v(
          P,
          "negative_after_jubilee",
          format!("{} created at {} has number {}", entry.id, entry.height, entry.inscription_number),
        ));
      }
    }
    by_tx.entry(entry.id.txid).or_default().push((entry.id.index, i as u32));
    // inverse lookups
    let by_id = e(index.get_inscription_entry(entry.id))?;
    if by_id.map(|x| x.sequence_number) != Some(i as u32) {
      out.push(v(P, "id_lookup", format!("{} does not map back to seq {i}", entry.id)));
    }
  }
  // id index = position among the envelopes of the transaction
  for (txid, list) in &by_tx {
    let mut idx: Vec<u32> = list.iter().map(|(i, _)| *i).collect();
    idx.sort();
    let want: Vec<u32> = (0..idx.len() as u32).collect();
    if idx != want {
      out.push(v(P, "id_indices", format!("{txid}: indices {idx:?}")));
    }
  }
  let model_ids: BTreeSet<InscriptionId> = m.inscr.list.iter().map(|i| i.id).collect();
  let index_ids: BTreeSet<InscriptionId> = entries.iter().map(|(e, _)| e.id).collect();
  if model_ids != index_ids {
    let missing: Vec<_> = model_ids.difference(&index_ids).collect();
    let extra: Vec<_> = index_ids.difference(&model_ids).collect();
    out.push(v(
      P,
      "id_set",
      format!("ids by envelope position: missing {missing:?}, unexpected {extra:?}"),
    ));
  }
  // number table is the inverse
  let numbers = e(index.verif_number_to_sequence_number())?;
  if numbers.len() != entries.len() {
    out.push(v(
      P,
      "number_table_size",
      format!("{} numbers for {} inscriptions", numbers.len(), entries.len()),
    ));
  }
  for (number, seq) in &numbers {
    match entries.get(*seq as usize) {
      Some((entry, _)) if entry.inscription_number == *number => {}
      other => out.push(v(
        P,
        "number_lookup",
        format!("number {number} -> seq {seq} -> {:?}", other.map(|(e, _)| e.inscription_number)),
      )),
    }
  }
  // per-height brackets
  let h2s = e(index.verif_height_to_last_sequence_number())?;
  let mut prev = 0u32;
  for (h, last) in &h2s {
    if *last < prev {
      out.push(v(P, "height_brackets_not_monotone", format!("height {h}: {last} < {prev}")));
    }
    for (entry, _) in &entries[(prev as usize).min(entries.len())..(*last as usize).min(entries.len())] {
      if entry.height != *h {
        out.push(v(
          P,
          "height_bracket",
          format!("{} created at {} is bracketed under height {h}", entry.id, entry.height),
        ));
      }
    }
    prev = *last;
  }
  if let Some((_, last)) = h2s.last()
    && *last as usize != entries.len()
  {
    out.push(v(P, "height_bracket_end", format!("last bracket {last}, {} entries", entries.len())));
  }
  // reveals spent to fees in their own block are numbered last in it
  let seq_of: BTreeMap<InscriptionId, u32> = entries.iter().map(|(e, _)| (e.id, e.sequence_number)).collect();
  let mut by_height: BTreeMap<u32, (Vec<u32>, Vec<u32>)> = BTreeMap::new();
  for i in &m.inscr.list {
    if i.sat.is_none() {
      continue;
    }
    let Some(seq) = seq_of.get(&i.id) else {
      continue;
    };
    let slot = by_height.entry(i.height).or_default();
    if i.fee_spent_at_reveal {
      slot.0.push(*seq);
    } else {
      slot.1.push(*seq);
    }
  }
  for (h, (fee_spent, normal)) in &by_height {
    if let (Some(min_fee), Some(max_normal)) = (fee_spent.iter().min(), normal.iter().max())
      && min_fee < max_normal
    {
      out.push(v(
        P,
        "fee_spent_not_last",
        format!("height {h}: fee-spent reveal has seq {min_fee}, another inscription of the block has {max_normal}"),
      ));
    }
  }
  Ok(())
}

/// C06: reinscriptions flagged; clean first inscriptions blessed.
pub fn c06(index: &Index, m: &Model, out: &mut Vec<Violation>) -> R<()> {
  const P: &str = "C06";
  let entries = e(index.verif_inscription_entries())?;
  let by_id: BTreeMap<InscriptionId, usize> = entries.iter().enumerate().map(|(i, (e, _))| (e.id, i)).collect();
  let mut by_sat: BTreeMap<u64, Vec<(u32, &model::inscr::Inscr)>> = BTreeMap::new();
  for i in &m.inscr.list {
    if let (Some(sat), Some(row)) = (i.sat, by_id.get(&i.id)) {
      by_sat.entry(sat).or_default().push((entries[*row].0.sequence_number, i));
    }
  }
  for (sat, list) in &mut by_sat {
    list.sort_by_key(|(seq, _)| *seq);
    for (k, (seq, i)) in list.iter().enumerate() {
      let entry = &entries[*seq as usize].0;
      if k > 0 && !charm(entry.charms, Charm::Reinscription) {
        out.push(v(
          P,
          "reinscription_not_flagged",
          format!(
            "{} (seq {seq}) is on sat {sat} which already carries {}; pointer={} input={}",
            i.id, list[0].1.id, i.has_pointer, i.envelope_input
          ),
        ));
      }
      if k == 0 && i.clean_envelope {
        if entry.inscription_number < 0 {
          out.push(v(P, "clean_first_cursed", format!("{} has number {}", i.id, entry.inscription_number)));
        }
        if charm(entry.charms, Charm::Vindicated) {
          out.push(v(P, "clean_first_vindicated", format!("{}", i.id)));
        }
        if charm(entry.charms, Charm::Reinscription) {
          out.push(v(P, "clean_first_reinscription", format!("{} on sat {sat}", i.id)));
        }
        if charm(entry.charms, Charm::Cursed) {
          out.push(v(P, "clean_first_cursed", format!("{} has the cursed charm", i.id)));
        }
      }
    }
  }
  Ok(())
}

/// C07: provenance cannot be forged; views are inverses; latest child.
pub fn c07(index: &Index, m: &Model, out: &mut Vec<Violation>) -> R<()> {
  const P: &str = "C07";
  let entries = e(index.verif_inscription_entries())?;
  let by_id: BTreeMap<InscriptionId, usize> = entries.iter().enumerate().map(|(i, (e, _))| (e.id, i)).collect();
  let mut children_of: BTreeMap<u32, BTreeSet<u32>> = BTreeMap::new();
  for i in &m.inscr.list {
    let Some(row) = by_id.get(&i.id) else {
      continue;
    };
    let entry = &entries[*row].0;
    let mut seen = BTreeSet::new();
    for parent_seq in &entry.parents {
      if !seen.insert(*parent_seq) {
        out.push(v(P, "parent_repeated", format!("{} lists parent seq {parent_seq} twice", i.id)));
      }
      if *parent_seq >= entry.sequence_number {
        out.push(v(
          P,
          "parent_not_older",
          format!("{} (seq {}) has parent seq {parent_seq}", i.id, entry.sequence_number),
        ));
      }
      let Some((parent, _)) = entries.get(*parent_seq as usize) else {
        out.push(v(P, "parent_unknown", format!("{} has parent seq {parent_seq}", i.id)));
        continue;
      };
      if !i.potential_parents.contains(&parent.id) {
        out.push(v(
          P,
          "forged_parent",
          format!("{} records parent {} which its reveal neither spent nor revealed", i.id, parent.id),
        ));
      }
      if !i.named_parents.contains(&parent.id) {
        out.push(v(
          P,
          "unnamed_parent",
          format!("{} records parent {} which its envelope does not name", i.id, parent.id),
        ));
      }
      children_of.entry(*parent_seq).or_default().insert(entry.sequence_number);
    }
  }
  // children view is the exact inverse (all pages)
  for (seq, (entry, _)) in entries.iter().enumerate() {
    let seq = seq as u32;
    let mut got = BTreeSet::new();
    let mut page = 0;
    loop {
      let (ids, more) = e(index.get_children_by_sequence_number_paginated(seq, 100, page))?;
      for id in ids {
        if let Some(row) = by_id.get(&id) {
          got.insert(entries[*row].0.sequence_number);
        } else {
          out.push(v(P, "child_unknown", format!("{} lists unknown child {id}", entry.id)));
        }
      }
      if !more {
        break;
      }
      page += 1;
    }
    let want = children_of.get(&seq).cloned().unwrap_or_default();
    if got != want {
      out.push(v(
        P,
        "children_view_not_inverse",
        format!("{}: children view {got:?}, parents recorded by children {want:?}", entry.id),
      ));
    }
    // parents view
    let mut got_parents = Vec::new();
    let mut page = 0;
    loop {
      let (ids, more) = e(index.get_parents_by_sequence_number_paginated(entry.parents.clone(), 100, page))?;
      got_parents.extend(ids);
      if !more {
        break;
      }
      page += 1;
    }
    let want_parents: Vec<InscriptionId> = entry
      .parents
      .iter()
      .filter_map(|p| entries.get(*p as usize).map(|(e, _)| e.id))
      .collect();
    if got_parents != want_parents {
      out.push(v(
        P,
        "parents_view",
        format!("{}: parents view {got_parents:?}, entry {want_parents:?}", entry.id),
      ));
    }
  }
  // latest child of every visible collection
  let mut page = 0;
  let mut collections: BTreeMap<InscriptionId, ()> = BTreeMap::new();
  loop {
    let (ids, more) = e(index.get_collections_paginated(100, page))?;
    for id in ids {
      collections.insert(id, ());
    }
    if !more {
      break;
    }
    page += 1;
  }
  let dump = e(index.verif_dump())?;
  let latest: BTreeMap<u32, u32> = table_u32_u32(&dump, "COLLECTION_SEQUENCE_NUMBER_TO_LATEST_CHILD_SEQUENCE_NUMBER")
    .into_iter()
    .collect();
  let inverse: BTreeSet<(u32, u32)> =
    table_u32_u32(&dump, "LATEST_CHILD_SEQUENCE_NUMBER_TO_COLLECTION_SEQUENCE_NUMBER")
      .into_iter()
      .collect();
  for (parent_seq, children) in &children_of {
    let (parent, _) = &entries[*parent_seq as usize];
    if parent.hidden {
      continue;
    }
    if !collections.contains_key(&parent.id) {
      out.push(v(P, "collection_missing", format!("{} has children but is not listed as a collection", parent.id)));
    }
    let newest = *children.iter().max().unwrap();
    if latest.get(parent_seq) != Some(&newest) {
      out.push(v(
        P,
        "latest_child",
        format!("{}: latest child recorded as {:?}, newest child is seq {newest}", parent.id, latest.get(parent_seq)),
      ));
    }
    if !inverse.contains(&(newest, *parent_seq)) {
      out.push(v(
        P,
        "latest_child_inverse",
        format!("{}: ({newest}, {parent_seq}) missing from the latest-child view", parent.id),
      ));
    }
  }
  for (child, parent) in &inverse {
    if latest.get(parent) != Some(child) {
      out.push(v(
        P,
        "latest_child_stale",
        format!("latest-child view has ({child}, {parent}) but the collection's latest child is {:?}", latest.get(parent)),
      ));
    }
  }
  Ok(())
}

pub fn table_u32_u32(dump: &Dump, name: &str) -> Vec<(u32, u32)> {
  dump
    .iter()
    .find(|(n, _)| n == name)
    .map(|(_, rows)| {
      rows
        .iter()
        .filter_map(|(k, v)| {
          Some((
            u32::from_le_bytes(k.as_slice().try_into().ok()?),
            u32::from_le_bytes(v.as_slice().try_into().ok()?),
          ))
        })
        .collect()
    })
    .unwrap_or_default()
}

// ----------------------------------------------------------------------- runes

/// C08: supply conservation (model-free except for "unspent").
pub fn c08(index: &Index, m: &Model, out: &mut Vec<Violation>) -> R<()> {
  const P: &str = "C08";
  let runes = e(index.runes())?;
  let entries: BTreeMap<RuneId, _> = runes.into_iter().collect();
  let balances = e(index.get_rune_balances())?;
  let mut held: BTreeMap<RuneId, u128> = BTreeMap::new();
  for (outpoint, list) in &balances {
    let utxo = m.utxos.get(outpoint);
    if utxo.is_none() {
      out.push(v(P, "balance_on_spent_output", format!("{outpoint} holds {list:?} but is not unspent")));
    }
    if let Some(u) = utxo
      && u.script.is_op_return()
    {
      out.push(v(P, "balance_on_op_return", format!("{outpoint} holds {list:?}")));
    }
    let mut seen = BTreeSet::new();
    for (id, amount) in list {
      if *amount == 0 {
        out.push(v(P, "zero_balance", format!("{outpoint} holds 0 of {id}")));
      }
      if !seen.insert(*id) {
        out.push(v(P, "rune_listed_twice", format!("{outpoint} lists {id} twice")));
      }
      if !entries.contains_key(id) {
        out.push(v(P, "unknown_rune", format!("{outpoint} holds {amount} of unknown rune {id}")));
      }
      let h = held.entry(*id).or_default();
      *h = h.checked_add(*amount).ok_or("balance sum overflows")?;
    }
  }
  for (id, entry) in &entries {
    let amount = entry.terms.and_then(|t| t.amount).unwrap_or(0);
    let minted = entry.mints.checked_mul(amount);
    let supply = minted.and_then(|x| x.checked_add(entry.premine));
    let circulating = held.get(id).copied().unwrap_or(0).checked_add(entry.burned);
    if supply.is_none() || circulating != supply {
      out.push(v(
        P,
        "not_conserved",
        format!(
          "{id} {}: held {} + burned {} != premine {} + mints {} x amount {amount}",
          entry.spaced_rune,
          held.get(id).copied().unwrap_or(0),
          entry.burned,
          entry.premine,
          entry.mints
        ),
      ));
    }
  }
  Ok(())
}

/// C09/C10/C11: exact agreement with the rune reference model.
pub fn runes_vs_model(index: &Index, m: &Model, out: &mut Vec<Violation>) -> R<()> {
  let runes = e(index.runes())?;
  let entries: BTreeMap<RuneId, _> = runes.into_iter().collect();
  let balances: BTreeMap<OutPoint, BTreeMap<RuneId, u128>> = e(index.get_rune_balances())?
    .into_iter()
    .map(|(o, l)| (o, l.into_iter().collect()))
    .collect();

  // C09: balances and burned totals
  if balances != m.runes.balances {
    let mut detail = String::new();
    for (o, want) in &m.runes.balances {
      if balances.get(o) != Some(want) {
        detail += &format!(" {o}: index {:?} model {want:?};", balances.get(o));
      }
    }
    for (o, got) in &balances {
      if !m.runes.balances.contains_key(o) {
        detail += &format!(" {o}: index {got:?} model nothing;");
      }
    }
    out.push(v("C09", "balances", detail));
  }
  for (id, info) in &m.runes.runes {
    if let Some(entry) = entries.get(id)
      && entry.burned != info.burned
    {
      out.push(v(
        "C09",
        "burned",
        format!("{id}: index burned {}, model {}", entry.burned, info.burned),
      ));
    }
  }

  // C10: mint counts, caps
  for (id, entry) in &entries {
    let cap = entry.terms.and_then(|t| t.cap).unwrap_or(0);
    if entry.mints > cap {
      out.push(v("C10", "mints_exceed_cap", format!("{id}: {} mints, cap {cap}", entry.mints)));
    }
    if let Some(info) = m.runes.runes.get(id)
      && info.mints != entry.mints
    {
      out.push(v(
        "C10",
        "mint_count",
        format!("{id}: index {} mints, model {}", entry.mints, info.mints),
      ));
    }
  }

  // C11: which etchings exist, names, ids, numbers
  let got_ids: BTreeSet<RuneId> = entries.keys().copied().collect();
  let want_ids: BTreeSet<RuneId> = m.runes.runes.keys().copied().collect();
  for id in want_ids.difference(&got_ids) {
    out.push(v(
      "C11",
      "valid_etching_missing",
      format!("{id} {} should exist", m.runes.runes[id].rune),
    ));
  }
  for id in got_ids.difference(&want_ids) {
    out.push(v(
      "C11",
      "invalid_etching_created",
      format!("{id} {} should not exist", entries[id].spaced_rune),
    ));
  }
  let mut names: BTreeMap<Rune, RuneId> = BTreeMap::new();
  let mut numbers: Vec<u64> = Vec::new();
  for (id, entry) in &entries {
    if let Some(other) = names.insert(entry.spaced_rune.rune, *id) {
      out.push(v("C11", "name_not_unique", format!("{} is both {other} and {id}", entry.spaced_rune)));
    }
    numbers.push(entry.number);
    if entry.block != id.block {
      out.push(v("C11", "id_block", format!("{id} has block {}", entry.block)));
    }
    match e(index.rune(entry.spaced_rune.rune))? {
      Some((rid, _, _)) if rid == *id => {}
      other => out.push(v(
        "C11",
        "name_lookup",
        format!("{} resolves to {:?}, not {id}", entry.spaced_rune, other.map(|x| x.0)),
      )),
    }
    if let Some(info) = m.runes.runes.get(id) {
      if info.rune != entry.spaced_rune.rune {
        out.push(v(
          "C11",
          "name",
          format!("{id}: index name {}, model {}", entry.spaced_rune.rune, info.rune),
        ));
      }
      if info.number != entry.number {
        out.push(v(
          "C11",
          "number",
          format!("{id}: index number {}, model {}", entry.number, info.number),
        ));
      }
      if info.premine != entry.premine
        || info.terms != entry.terms
        || info.divisibility != entry.divisibility
        || info.spacers != entry.spaced_rune.spacers
        || info.symbol != entry.symbol
        || info.turbo != entry.turbo
        || info.etching != entry.etching
        || u64::from(info.timestamp) != entry.timestamp
      {
        out.push(v("C11", "entry_fields", format!("{id}: index {entry:?}, model {info:?}")));
      }
    }
  }
  numbers.sort();
  let want: Vec<u64> = (0..numbers.len() as u64).collect();
  if numbers != want {
    out.push(v("C11", "numbers_not_dense", format!("{numbers:?}")));
  }
  Ok(())
}

// ------------------------------------------------------------------- dump mask

pub type Dump = Vec<(String, Vec<(Vec<u8>, Vec<u8>)>)>;

/// The dump with timing and commit bookkeeping removed (C12's exclusions).
pub fn masked(dump: &Dump) -> Dump {
  dump
    .iter()
    .filter(|(name, _)| name != "WRITE_TRANSACTION_STARTING_BLOCK_COUNT_TO_TIMESTAMP")
    .map(|(name, rows)| {
      if name == "STATISTIC_TO_COUNT" {
        let rows = rows
          .iter()
          .filter(|(k, _)| {
            let key = u64::from_le_bytes(k.as_slice().try_into().unwrap());
            !matches!(key, STAT_COMMITS | STAT_INITIAL_SYNC_TIME | STAT_LAST_SAVEPOINT_HEIGHT)
          })
          .cloned()
          .collect();
        (name.clone(), rows)
      } else {
        (name.clone(), rows.clone())
      }
    })
    .collect()
}

pub fn digest(dump: &Dump) -> u64 {
  let mut h = 0xcbf29ce484222325u64;
  let mut feed = |bytes: &[u8]| {
    for b in bytes {
      h ^= u64::from(*b);
      h = h.wrapping_mul(0x100000001b3);
    }
  };
  for (name, rows) in dump {
    feed(name.as_bytes());
    feed(&(rows.len() as u64).to_le_bytes());
    for (k, val) in rows {
      feed(&(k.len() as u32).to_le_bytes());
      feed(k);
      feed(&(val.len() as u32).to_le_bytes());
      feed(val);
    }
  }
  h
}

/// First difference between two dumps, for a readable report.
pub fn diff(a: &Dump, b: &Dump) -> Option<String> {
  for ((na, ra), (nb, rb)) in a.iter().zip(b.iter()) {
    if na != nb {
      return Some(format!("table order {na} vs {nb}"));
    }
    if ra != rb {
      let sa: BTreeSet<_> = ra.iter().collect();
      let sb: BTreeSet<_> = rb.iter().collect();
      let only_a: Vec<_> = sa.difference(&sb).take(3).collect();
      let only_b: Vec<_> = sb.difference(&sa).take(3).collect();
      let show = |rows: &Vec<&&(Vec<u8>, Vec<u8>)>| {
        rows
          .iter()
          .map(|(k, v)| format!("{}={}", hex::encode(k), hex::encode(v)))
          .collect::<Vec<_>>()
          .join(", ")
      };
      return Some(format!(
        "{na}: {} vs {} rows; only in first: [{}]; only in second: [{}]",
        ra.len(),
        rb.len(),
        show(&only_a),
        show(&only_b)
      ));
    }
  }
  if a.len() != b.len() {
    return Some("different number of tables".into());
  }
  None
}
