//! Per-property plans: how a scenario is generated from a seed, how it is
//! executed, and which oracle decides it.

use {
  crate::{
    exec::{Exec, UpdateResult},
    gen_::*,
    oracle::{self, Violation, v},
    rng::Rng,
    scenario::*,
  },
  serde::{Deserialize, Serialize},
  std::collections::BTreeMap,
};

pub const STATE_PROPS: &[&str] = &[
  "C01", "C02", "C03", "C04", "C05", "C06", "C07", "C08", "C09", "C10", "C11", "C16", "C17",
];

#[derive(Clone, Debug, Default, Serialize, Deserialize)]
pub struct RunReport {
  pub seed: u64,
  pub property: String,
  pub profile: String,
  pub violations: Vec<Violation>,
  pub inconclusive: Option<String>,
  pub harness_error: Option<String>,
  /// digest of every simulator decision and every RPC served (determinism proof)
  pub trace: u64,
  pub trace_len: u64,
  /// digest of (schedule, configuration, final index content)
  pub signature: u64,
  pub nontrivial: bool,
  pub blocks: u64,
  pub txs: u64,
  pub updates: u64,
  pub checks: u64,
  pub sim_ms: u64,
  pub steps: u64,
  pub probes: BTreeMap<String, u64>,
  pub faults: BTreeMap<String, u64>,
  pub facts: BTreeMap<String, u64>,
  pub wall_us: u64,
}

fn fnv(mut h: u64, bytes: &[u8]) -> u64 {
  for b in bytes {
    h ^= u64::from(*b);
    h = h.wrapping_mul(0x100000001b3);
  }
  h
}

pub fn schedule_signature(sc: &Scenario) -> u64 {
  let mut h = 0xcbf29ce484222325u64;
  h = fnv(h, serde_json::to_string(&sc.config).unwrap().as_bytes());
  for op in &sc.ops {
    match op {
      Op::Mine(b) => h = fnv(h, &[1, b.len() as u8]),
      Op::Reorg { depth, blocks } => h = fnv(h, &[2, *depth as u8, blocks.len() as u8]),
      Op::Update(u) => {
        h = fnv(h, &[3]);
        h = fnv(h, serde_json::to_string(u).unwrap().as_bytes());
      }
      Op::Reopen => h = fnv(h, &[4]),
      Op::Check => h = fnv(h, &[5]),
      Op::Wallet(c) => {
        h = fnv(h, &[6]);
        h = fnv(h, serde_json::to_string(c).unwrap().as_bytes());
      }
      Op::WalletLock(k) => h = fnv(h, &[7, *k as u8]),
    }
  }
  if let Some(server) = &sc.server {
    h = fnv(h, serde_json::to_string(server).unwrap().as_bytes());
  }
  h
}

// ------------------------------------------------------------------ generation

pub fn features_for(property: &str) -> Features {
  match property {
    "C01" | "C02" | "C17" => sats_features(),
    "C03" | "C04" | "C05" | "C06" | "C07" => inscription_features(),
    "C08" | "C09" | "C10" | "C11" => rune_features(),
    "C16" => Features {
      raw_garbage: 35,
      cenotaphs: 30,
      env_flaws: 50,
      ..everything_features()
    },
    _ => everything_features(),
  }
}

pub fn config_for(property: &str, rng: &mut Rng) -> Config {
  let mut c = gen_config(rng);
  match property {
    "C01" | "C02" => {
      c.index_sats = true;
      c.no_index_inscriptions = rng.chance(1, 3);
    }
    "C03" | "C06" => {
      c.index_sats = true;
    }
    "C04" | "C05" | "C07" => {
      c.index_sats = rng.chance(2, 3);
      if !c.index_sats {
        c.index_addresses = rng.chance(1, 2);
      }
    }
    "C08" | "C09" | "C10" | "C11" => {
      c.index_runes = true;
      c.index_sats = rng.chance(1, 2);
      c.no_index_inscriptions = rng.chance(1, 4);
    }
    "C16" => {
      c.index_sats = rng.chance(1, 2);
      c.index_addresses = rng.chance(1, 2);
      c.index_runes = rng.chance(2, 3);
      c.no_index_inscriptions = rng.chance(1, 5);
    }
    "C17" => {
      c.index_addresses = true;
      c.index_sats = rng.chance(1, 2);
    }
    _ => {}
  }
  if property == "C05" && rng.chance(1, 3) {
    c.chain = ChainKind::Testnet4;
  }
  if matches!(property, "C16") {
    c.chain = *rng.pick(&[ChainKind::Regtest, ChainKind::Regtest, ChainKind::Testnet4, ChainKind::Signet]);
  }
  c
}

pub fn gen_state_scenario(property: &str, seed: u64, thorough: bool) -> Scenario {
  let root = Rng::new(seed);
  let mut crng = root.fork("config");
  let mut wrng = root.fork("workload");
  let mut srng = root.fork("schedule");
  let mut config = config_for(property, &mut crng);
  if matches!(property, "C03" | "C04" | "C05" | "C06" | "C07") && crng.chance(1, 6) {
    // inscriptions activate above genesis while the chain already carries
    // envelopes: they must be ignored. With the sat index on, ord indexes from
    // genesis and lost sats are counted from there as the model does.
    config.first_inscription_height = Some(2 + crng.below(10) as u32);
    config.index_sats = true;
  }
  let base = features_for(property);
  let mut f = Features::swarm(&base, &mut wrng);
  if matches!(property, "C08" | "C09" | "C10" | "C11") {
    // the swarm may switch any group off, but a rune property needs runes
    f.runestones = f.runestones.max(40);
    f.etchings = f.etchings.max(30);
    f.txs_per_block.1 = f.txs_per_block.1.max(2);
  }
  let max_blocks = if thorough { 60 } else { 36 };
  let mut n = 4 + wrng.usize(max_blocks);
  if matches!(property, "C08" | "C09" | "C10" | "C11") {
    // commitments need six confirmations
    n += 10;
  }
  if property == "C05" && config.chain == ChainKind::Regtest && wrng.chance(1, 4) {
    // cross the regtest jubilee at 110
    n = 112 + wrng.usize(10);
  }
  let mut blocks = gen_chain(&mut wrng, &f, n);
  if n > 100 {
    // keep the long prefix cheap: activity near the jubilee only
    for b in blocks.iter_mut().take(100) {
      b.txs.truncate(1);
    }
  }
  let fetch_path = !(config.index_sats || config.index_addresses);
  let every_height = property == "C02" && srng.chance(1, 2);
  let mut ops = schedule_ops(&mut srng, blocks, fetch_path, every_height, true);
  // one more schedule choice, for every state property: a racing second updater
  crate::twin::compete(&mut ops, &mut srng, fetch_path);
  Scenario {
    seed,
    profile: format!("{property}/state"),
    config,
    ops,
    server: None,
  }
}

// ------------------------------------------------------------------- execution

pub struct Ctx {
  pub property: String,
  pub report: RunReport,
  pub oracle_rng: Rng,
}

fn facts_from_model(ex: &Exec, report: &mut RunReport) {
  ex.sim.snapshot(|s| {
    let m = s.world.tip_model();
    let f = &mut report.facts;
    f.insert("model.utxos".into(), m.utxos.len() as u64);
    f.insert("model.lost_sats".into(), crate::model::ranges_len(&m.lost));
    f.insert("model.destroyed_sats".into(), m.destroyed);
    f.insert("model.inscriptions".into(), m.inscr.list.len() as u64);
    f.insert(
      "model.unbound".into(),
      m.inscr.list.iter().filter(|i| i.sat.is_none()).count() as u64,
    );
    f.insert(
      "model.fee_spent_reveals".into(),
      m.inscr.list.iter().filter(|i| i.fee_spent_at_reveal).count() as u64,
    );
    let mut sats = std::collections::BTreeMap::new();
    for i in &m.inscr.list {
      if let Some(s) = i.sat {
        *sats.entry(s).or_insert(0u64) += 1;
      }
    }
    f.insert(
      "model.reinscribed_sats".into(),
      sats.values().filter(|n| **n > 1).count() as u64,
    );
    f.insert(
      "model.lost_inscriptions".into(),
      m.inscr
        .list
        .iter()
        .filter(|i| i.sat.is_some_and(|s| crate::model::offset_of(&m.lost, s).is_some()))
        .count() as u64,
    );
    f.insert("model.runes".into(), m.runes.runes.len() as u64);
    f.insert("model.runic_outputs".into(), m.runes.balances.len() as u64);
    f.insert(
      "model.rune_mints".into(),
      m.runes.runes.values().map(|r| r.mints.min(u64::MAX as u128) as u64).sum(),
    );
    f.insert(
      "model.runes_burned".into(),
      m.runes.runes.values().filter(|r| r.burned > 0).count() as u64,
    );
    for (k, val) in &m.runes.stats {
      f.insert(format!("model.rune.{k}"), *val);
    }
    f.insert("world.reorgs".into(), s.world.stats.reorgs);
    f.insert("world.max_reorg_depth".into(), s.world.stats.max_reorg_depth.into());
  });
}

pub fn finish_report(ex: Exec, mut report: RunReport, sc: &Scenario, final_digest: u64) -> RunReport {
  facts_from_model(&ex, &mut report);
  if let Some((_, rest)) = sc.profile.split_once("/enumerated ") {
    for part in rest.split_whitespace() {
      if let Some((k, val)) = part.split_once('=')
        && let Ok(n) = val.parse::<u64>()
      {
        report.facts.insert(format!("enum.{k}"), n);
      }
    }
  }
  report.updates = ex.updates;
  report.faults.insert("reopen".into(), ex.reopens);
  let sim = ex.finish();
  sim.snapshot(|s| {
    if let (Some(dir), Some(log)) = (std::env::var_os("ORDSIM_TRACE_DIR"), &s.trace_log) {
      let path = std::path::Path::new(&dir).join(format!("{}-{}.trace", report.property, sc.seed));
      std::fs::write(path, log.join("\n")).ok();
    }
    report.trace = s.trace;
    report.trace_len = s.trace_len;
    report.sim_ms = s.clock_ms;
    report.steps = s.steps_total;
    report.blocks = s.world.stats.blocks_mined;
    report.txs = s.world.stats.txs_mined;
    for (k, val) in &s.probes {
      report.probes.insert((*k).to_string(), *val);
    }
    for (k, val) in &s.faults_total {
      *report.faults.entry(k.clone()).or_default() += *val;
    }
    if let Some(e) = &s.harness_error {
      report.harness_error = Some(e.clone());
    }
  });
  let mut h = schedule_signature(sc);
  h = fnv(h, &final_digest.to_le_bytes());
  report.signature = h;
  report.nontrivial = nontrivial(&report);
  report
}

fn p(r: &RunReport, k: &str) -> u64 {
  r.probes.get(k).copied().unwrap_or(0)
}

fn f(r: &RunReport, k: &str) -> u64 {
  r.facts.get(k).copied().unwrap_or(0)
}

/// The property's non-triviality rule (stated in each evidence file).
pub fn nontrivial(r: &RunReport) -> bool {
  if r.checks == 0 {
    return false;
  }
  match r.property.as_str() {
    "C01" => p(r, "sats.split") > 0 && p(r, "input.cache") > 0 && p(r, "input.table") > 0,
    "C02" => p(r, "sats.split") > 0 && r.checks >= 2,
    "C03" => f(r, "model.inscriptions") >= 2 && p(r, "input.table") + p(r, "input.cache") > 0,
    "C04" => f(r, "model.inscriptions") >= 2,
    "C05" => f(r, "model.inscriptions") >= 3,
    "C06" => f(r, "model.inscriptions") >= 2,
    "C07" => f(r, "model.inscriptions") >= 2,
    "C08" | "C09" => f(r, "model.runes") >= 1 && f(r, "model.runic_outputs") >= 1,
    "C10" => f(r, "model.rune.mint.attempt") >= 1 && f(r, "model.runes") >= 1,
    "C11" => f(r, "model.rune.etch.attempt") >= 1,
    "C16" => r.txs >= 3,
    "C17" => p(r, "input.table") + p(r, "input.cache") > 0,
    _ => true,
  }
}

pub const RULES: &[(&str, &str)] = &[
  ("C01", "scenario = generated chain + transparent schedule; non-trivial = at least one sat range was split across outputs and spends were served both from the in-memory cache and from the table; distinct = distinct (schedule+config digest, final index digest)"),
  ("C02", "non-trivial = at least one range split and the partition/lookups were audited at two or more heights; distinct by (schedule+config digest, final index digest)"),
  ("C03", "non-trivial = at least two inscriptions exist and at least one output was spent after creation; distinct by (schedule+config digest, final index digest)"),
  ("C04", "a quarter of the update calls are raced by a second Index::update that wins the write lock after a mid-batch commit, a sixth of the chains activate inscriptions above genesis while carrying envelopes from the start; non-trivial = at least two inscriptions exist; distinct by (schedule+config digest, final index digest)"),
  ("C05", "a quarter of the update calls are raced by a second Index::update that wins the write lock after a mid-batch commit, a sixth of the chains activate inscriptions above genesis while carrying envelopes from the start; non-trivial = at least three inscriptions exist; distinct by (schedule+config digest, final index digest)"),
  ("C06", "non-trivial = at least two inscriptions exist; distinct by (schedule+config digest, final index digest)"),
  ("C07", "non-trivial = at least two inscriptions exist; distinct by (schedule+config digest, final index digest)"),
  ("C08", "non-trivial = at least one rune exists and at least one output holds runes; distinct by (schedule+config digest, final index digest)"),
  ("C09", "non-trivial = at least one rune exists and at least one output holds runes; distinct by (schedule+config digest, final index digest)"),
  ("C10", "non-trivial = at least one mint was attempted on a chain with a rune; distinct by (schedule+config digest, final index digest)"),
  ("C11", "non-trivial = at least one etching was attempted; distinct by (schedule+config digest, final index digest)"),
  ("C16", "non-trivial = chain has at least three non-coinbase transactions; distinct by (schedule+config digest, final index digest)"),
  ("C17", "non-trivial = at least one output was spent; distinct by (schedule+config digest, final index digest)"),
];

/// Run the state oracle of `property` against the index at its current height.
pub fn check_state(ex: &Exec, ctx: &mut Ctx) {
  let index = ex.index();
  let count = match index.block_count() {
    Ok(c) => c,
    Err(e) => {
      ctx.report.harness_error = Some(format!("block_count: {e:#}"));
      return;
    }
  };
  if count == 0 {
    return;
  }
  let (model, network, jubilee, on_best) = ex.sim.snapshot(|s| {
    let m = s.world.models.get(count as usize - 1).cloned();
    let hash = s.world.best.get(count as usize - 1).copied();
    let index_hash = index.block_hash(Some(count - 1)).ok().flatten();
    (m, s.world.network, s.world.params.jubilee_height, hash == index_hash)
  });
  let Some(model) = model else {
    ctx.report.harness_error = Some(format!("index at {count} blocks is beyond the simulated chain"));
    return;
  };
  if !on_best {
    ctx.report.harness_error = Some("index tip is not on the simulated best chain".into());
    return;
  }
  let c = &ex.config;
  let mut out = Vec::new();
  // the oracles only use ord's query API on a quiescent, fault-free index: a
  // query that panics or fails there is ord's doing (tables that do not agree
  // with each other), not the harness's
  let evaluated = std::panic::catch_unwind(std::panic::AssertUnwindSafe(|| match ctx.property.as_str() {
    "C01" => oracle::c01(index, &model, &mut out),
    "C02" => oracle::c02(index, &model, &mut ctx.oracle_rng, &mut out),
    "C03" => oracle::c03(index, &model, c.index_sats, &mut out),
    "C04" => oracle::c04(index, &model, &mut out),
    "C05" => oracle::c05(index, &model, jubilee, &mut out),
    "C06" => oracle::c06(index, &model, &mut out),
    "C07" => oracle::c07(index, &model, &mut out),
    "C08" => oracle::c08(index, &model, &mut out),
    "C09" | "C10" | "C11" => oracle::runes_vs_model(index, &model, &mut out).map(|_| {
      out.retain(|x| x.property == ctx.property);
    }),
    "C17" => oracle::c17(index, &model, network, &mut out),
    _ => Ok(()),
  }));
  ctx.report.checks += 1;
  match evaluated {
    Ok(Ok(())) => {}
    Ok(Err(e)) if e.starts_with("harness:") => ctx.report.harness_error = Some(e),
    Ok(Err(e)) => out.push(oracle::v(
      &ctx.property.clone(),
      "index_query_failed",
      format!("a query of the index at {count} blocks returned an error: {e}"),
    )),
    Err(_) => {
      let panics = crate::exec::take_panics();
      out.push(oracle::v(
        &ctx.property.clone(),
        "index_query_panicked",
        format!("a query of the index at {count} blocks panicked: {panics:?}"),
      ));
    }
  }
  ctx.report.violations.extend(out);
}

/// What to do with the result of an update in a fault-free (transparent)
/// configuration. Returns false if the run must stop.
pub fn fault_free_update_ok(r: &UpdateResult, ctx: &mut Ctx) -> bool {
  if r.outcome.budget_exhausted {
    ctx.report.inconclusive = Some("step budget exhausted".into());
    return false;
  }
  let failed = r.result.is_err() || !r.panics.is_empty();
  if !failed {
    return true;
  }
  let detail = format!("update returned {:?}; panics {:?}", r.result, r.panics);
  if ctx.property == "C16" {
    let class = if r.panics.is_empty() { "update_error" } else { "panic" };
    ctx.report.violations.push(v("C16", class, detail));
  } else {
    // reported by C16's check only (DESIGN §7, C16)
    ctx.report.inconclusive = Some(detail);
  }
  false
}

pub fn run_state(property: &str, sc: &Scenario) -> RunReport {
  let start = std::time::Instant::now();
  let mut ctx = Ctx {
    property: property.to_string(),
    report: RunReport {
      seed: sc.seed,
      property: property.to_string(),
      profile: sc.profile.clone(),
      ..Default::default()
    },
    oracle_rng: Rng::new(sc.seed).fork("oracle"),
  };
  let mut ex = Exec::new(&sc.config, sc.seed);
  for op in &sc.ops {
    match op {
      Op::Mine(blocks) => ex.mine(blocks),
      Op::Reorg { depth, blocks } => {
        ex.reorg(*depth, blocks);
      }
      Op::Reopen => {
        if ex.is_open()
          && let Err(e) = ex.reopen()
        {
          if property == "C16" {
            ctx.report.violations.push(v("C16", "open_error", e));
          } else {
            ctx.report.inconclusive = Some(format!("reopen failed: {e}"));
          }
          break;
        }
      }
      Op::Update(u) => {
        let r = ex.update(u);
        if !fault_free_update_ok(&r, &mut ctx) {
          break;
        }
        check_state(&ex, &mut ctx);
      }
      Op::Check => {
        if ex.is_open() {
          check_state(&ex, &mut ctx);
        }
      }
      Op::Wallet(_) | Op::WalletLock(_) => {}
    }
    if !ctx.report.violations.is_empty() || ctx.report.harness_error.is_some() {
      break;
    }
  }
  let final_digest = if ex.is_open() {
    ex.index()
      .verif_dump()
      .map(|d| oracle::digest(&oracle::masked(&d)))
      .unwrap_or(0)
  } else {
    0
  };
  let mut report = finish_report(ex, ctx.report, sc, final_digest);
  report.wall_us = start.elapsed().as_micros() as u64;
  report
}

pub fn generate(property: &str, seed: u64, thorough: bool) -> Scenario {
  match property {
    p if STATE_PROPS.contains(&p) => gen_state_scenario(p, seed, thorough),
    "C12" => crate::twin::gen_c12(seed, thorough),
    "C13" => crate::crash::gen_c13(seed, thorough),
    "C14" => crate::reorg::gen_c14(seed, thorough),
    "C15" => crate::twin::gen_c15(seed, thorough),
    "C37" => crate::events::gen_c37(seed, thorough),
    "C18" | "C19" => crate::explorer::gen_explorer(property, seed, thorough),
    "C21" | "C22" | "C23" | "C24" => crate::wallet::gen_wallet(property, seed, thorough),
    other => panic!("no generator for {other}"),
  }
}

pub fn run(property: &str, sc: &Scenario) -> RunReport {
  match property {
    p if STATE_PROPS.contains(&p) => run_state(p, sc),
    "C12" => crate::twin::run_c12(sc),
    "C13" => crate::crash::run_c13(sc),
    "C14" => crate::reorg::run_c14(sc),
    "C15" => crate::twin::run_c15(sc),
    "C37" => crate::events::run_c37(sc),
    "C18" | "C19" => crate::explorer::run_explorer(property, sc),
    "C21" | "C22" | "C23" | "C24" => crate::wallet::run_wallet(property, sc),
    other => panic!("no runner for {other}"),
  }
}

pub fn rule_for(property: &str) -> String {
  match property {
    "C12" => "scenario = generated chain indexed twice: reference (one update, commit interval 5000, prefetch 31 ahead, no reopen) and subject (generated commit interval, update partition incl. height limits, reopen points, lag, batch cuts, cache size, transient F/T errors, and in a quarter of the update calls a second Index::update that wins the write lock right after a mid-batch commit); masked dumps compared at the tip and at one intermediate checkpoint; non-trivial = at least two update calls and three transactions; distinct by (schedule+config digest, final index digest)".into(),
    "C15" => "scenario = generated chain indexed under one of the seven reduced combinations of {sats, addresses, transactions} with a generated transparent schedule, compared by projection with the all-indexes twin; non-trivial = at least one inscription or rune exists and, when neither sats nor addresses are indexed, at least one spent output was fetched from the node; distinct by (schedule+config digest, final index digest)".into(),
    "C13" => "scenario = generated history (commit interval 1..6, savepoint interval 1..5, max savepoints 1..3) with ONE disk fault placed after a fault-free probe of the same history: crash at a disk operation (uniform, first operation after a sync, or the sync itself), crash at a named point on the commit / savepoint path, EIO, or ENOSPC; recovery image clean / torn / all-written; non-trivial = the fault actually fired and both oracles (state after restart = uninterrupted index of a committed height within [last acknowledged, in flight]; resumed tip = uninterrupted tip) were evaluated; every fourth history instead ends with a reorganisation (mostly within the depth the savepoints can undo) and the fault lands in the update that rolls it back (named points reorg.before / reorg.restored / reorg.after, the first 40 disk operations, or uniform): state after restart = uninterrupted index of that height on the abandoned or on the new chain, resumed result = from-scratch index of the new best chain (or the reorganisation is reported unrecoverable); distinct by (history+fault placement digest, final index digest)".into(),
    "C14" => "scenario = generated history with savepoint interval 1..12, max savepoints 1..4: growth, partial indexing (index far behind the tip), reorganisations of depth 1..30 (biased to the recoverable boundary) between updates and at named points inside updates (before/after each commit, between the savepoint transactions), consecutive reorganisations, prefetch lag 0..31; then up to three updates on the quiet node; allowed outcomes: Ok with masked dump equal to a from-scratch index of the final best chain, or Unrecoverable with the status flag; non-trivial = at least one reorganisation happened and ord either rolled back at least once or reported unrecoverable; distinct by (history digest, final index digest)".into(),
    "C37" => "scenario = generated chain indexed with an event receiver under a transparent schedule (commit intervals, update partition, reopen points, lag, transient prefetch errors); after every update the event stream so far is folded (locations, charms at creation, parents, etchings, mint counts and amounts, burned totals, per-outpoint balances with inputs cleared by the transaction each event names) and compared with the index; non-trivial = at least three events of at least two kinds; distinct by (schedule+config digest, final index digest)".into(),
    "C18" => "scenario = generated chain (inscriptions with parents, delegates, reinscriptions, runes) indexed under a transparent schedule; at the final and one intermediate quiescent point the real explorer router is driven in-process: every inscription on /inscription/<id|number> and /r/inscription, all pages of /r/children and /r/parents, /inscriptions/block/<h>, /sat/<n>, /r/sat/<n> and /r/sat/<n>/at/<k> for every k from -(n+1) to n, /output/<o> for every inscribed or runic output plus a sample, /blockheight; fields compared with stored entries, the reference model (value, address, spent, sat ranges, rune balances, sat location) and creation order; non-trivial = at least two inscriptions and ten requests; distinct by (schedule+config digest, final index digest)".into(),
    "C19" => "scenario = generated chain with arbitrary content-type bytes, encodings (none, valid br, invalid br, gzip), delegates to existing / missing / delegating / hidden inscriptions; server options {csp origin or none, decompress or not, hidden set biased to delegates}; every inscription on /content, /r/undelegated-content, /preview, /r/sat/<n>/at/<k>/content (k<0 and k>=0) with and without Accept-Encoding, plus one request to a list of other routes incl. 404s; checks: body, content type, encoding rule, CSP on every response, content CSP confined, hidden bodies never served, relative content never immutable; non-trivial = at least two inscriptions and ten requests; distinct by (schedule+config+server options digest, final index digest)".into(),
    "C21" => "scenario = a wallet inventory built on chain (cardinals, inscriptions incl. one behind cardinal sats, runic outputs), then real `ord wallet batch` commands (separate-outputs, shared-output, same-sat with sat / satpoint / reinscribe targets, satpoints; 1-4 inscriptions; 0-2 parents held by the wallet; optional postage, foreign destinations, delegate, metadata; in a third of the batches an etching with premine 0..21M, divisibility, spacers, optional terms, turbo) run in-process; while the wallet waits for the commitment to mature the simulated node mines a block every 1-3 polls; commit and reveal are mined in the same block or in consecutive blocks and indexed by the real indexer; reported ids, locations and destinations must be what the indexer assigns, the reveal must create exactly the reported ids, a targeted sat must carry them, parents must return to wallet outputs, the commit must spend no other inscribed or runic output, the named rune must exist with the requested premine / divisibility / terms and its premine must sit at the reported output; non-trivial = at least one batch was settled; distinct by (history+commands digest, final index digest)".into(),
    "C24" => "scenario = a wallet inventory built on chain (cardinals, outputs holding one inscription, an output holding two, an inscribed output that also holds runes) and outputs of a counterparty; then `ord wallet offer accept` run in-process on generated PSBTs: valid offers and offers deviating in one or two respects (second wallet input, several inscriptions, runes, no inscription, no wallet input, wrong --amount, wrong --inscription, unsigned counterparty input, pre-signed wallet input, payment elsewhere), foreign signatures in witness or script sig, wallet input at any position; the node's signing replies are faulted (foreign signature changed by walletprocesspsbt or finalizepsbt, moved to the script sig, extra or missing input). Every PSBT the wallet hands to the node for signing and every transaction it tries to broadcast is audited against the reference model and the PSBT as presented; non-trivial = at least one offer was audited; distinct by (history+commands digest, final index digest)".into(),
    "C22" => "scenario = a wallet inventory built on chain (cardinals, inscriptions, 1-3 runes etched with premines spread over several outputs, outputs holding several runes), then real `ord wallet send <decimal:rune>`, `burn <decimal:rune>` and `split` commands (amounts: per-mille of the balance, 1, the full balance, more than the balance, zero) run in-process against the simulated node and the in-process explorer; each broadcast transaction is mined, indexed by the real indexer and settled: recipient amounts, burned deltas, every other rune of the spent inputs back on a wallet output; zero requests must be rejected; non-trivial = at least one command succeeded and was settled; distinct by (history+commands digest, final index digest)".into(),
    "C23" => "scenario = same inventory plus an optional pre-locked output; node-funded commands (send bitcoin, mint, split, send and burn runes) against a node whose fundrawtransaction picks ANY unlocked wallet output and tries outputs that hold inscriptions or runes first; every input of every broadcast transaction is audited against the reference model: no inscribed output, no runic output unless it holds a rune that is the subject of the command; non-trivial = at least one command succeeded; distinct by (history+commands digest, final index digest)".into(),
    _ => format!("{property}: distinct by (schedule+config digest, final index digest)"),
  }
}
