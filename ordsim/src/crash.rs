//! C13: a crash at any point leaves a consistent index that resumes correctly.
//!
//! One scenario = one history with one injected disk fault. The generator runs
//! the history fault-free first (a probe) to learn how many disk operations
//! and named points each update has, then places the fault. The runner checks
//! (1) the reopened index equals the fault-free index of some committed height
//! between the last acknowledged commit and the in-flight one, and (2)
//! continuing to the tip gives the uninterrupted result.

use {
  crate::{
    check::{Ctx, RunReport, fault_free_update_ok, finish_report},
    disk::Recovery,
    exec::Exec,
    gen_::*,
    oracle::{self, Dump, v},
    rng::Rng,
    scenario::*,
    twin::blocks_of,
  },
  std::collections::BTreeMap,
};

fn base_scenario(seed: u64, thorough: bool) -> Scenario {
  // several fault placements share one history
  let chain_seed = seed / 8;
  let root = Rng::new(chain_seed);
  let mut crng = root.fork("config");
  let mut wrng = root.fork("workload");
  let mut srng = root.fork("schedule");
  let mut config = gen_config(&mut crng);
  config.index_sats = crng.chance(2, 3);
  config.index_addresses = crng.chance(1, 2);
  config.index_runes = crng.chance(1, 2);
  config.commit_interval = 1 + crng.below(6) as u32;
  config.savepoint_interval = 1 + crng.below(5) as u32;
  config.max_savepoints = 1 + crng.below(3) as u32;
  let f = Features::swarm(&everything_features(), &mut wrng);
  let n = 3 + wrng.usize(if thorough { 27 } else { 14 });
  let blocks = gen_chain(&mut wrng, &f, n);
  let mut ops = Vec::new();
  let mut rest = blocks.as_slice();
  while !rest.is_empty() {
    let k = (1 + srng.usize(rest.len().min(8))).min(rest.len());
    let (now, later) = rest.split_at(k);
    rest = later;
    ops.push(Op::Mine(now.to_vec()));
    ops.push(Op::Update(UpdateSpec {
      lag: srng.below(32) as u32,
      ..Default::default()
    }));
  }
  Scenario {
    seed,
    profile: "C13/crash".into(),
    config,
    ops,
    server: None,
  }
}

pub const CRASH_POINTS: &[&str] = &[
  "block.received",
  "commit.before",
  "commit.after_first",
  "commit.after_second",
  "savepoint.deleted",
  "savepoint.creating",
  "savepoint.created",
  "commit.after_savepoints",
  "commit.done",
  "begin_write",
];

/// Thorough tier: the first seeds of a batch enumerate EVERY crash position of
/// one small history: every mutating disk operation and every hit of every
/// named point, each under the three recovery images.
fn gen_c13_enumerated(seed: u64) -> Option<Scenario> {
  let index = seed & 0xffff_ffff;
  let base = seed >> 32;
  if index >= 20_000 {
    return None;
  }
  // one small history per batch
  let mut sc = base_scenario(base.wrapping_mul(0x9e37_79b9).wrapping_add(77) * 8, false);
  let mut mined = 0usize;
  let mut keep = 0usize;
  for (i, op) in sc.ops.iter().enumerate() {
    if let Op::Mine(b) = op {
      mined += b.len();
    }
    keep = i + 1;
    if mined >= 6 && matches!(op, Op::Update(_)) {
      break;
    }
  }
  sc.ops.truncate(keep);
  if !matches!(sc.ops.last(), Some(Op::Update(_))) {
    sc.ops.push(Op::Update(UpdateSpec {
      lag: 31,
      ..Default::default()
    }));
  }
  sc.seed = seed;
  // probe
  let mut ex = Exec::new(&sc.config, sc.seed);
  let mut positions: Vec<(usize, DiskFault)> = Vec::new();
  for (i, op) in sc.ops.iter().enumerate() {
    match op {
      Op::Mine(b) => ex.mine(b),
      Op::Update(u) => {
        let r = ex.update(u);
        if r.result.is_err() {
          break;
        }
        for recovery in [Recovery::Clean, Recovery::Torn, Recovery::AllWritten] {
          for op in 1..=r.outcome.disk_ops {
            positions.push((i, DiskFault::CrashAtOp { op, recovery }));
          }
          for (name, count) in &r.outcome.points {
            if !CRASH_POINTS.contains(&name.as_str()) {
              continue;
            }
            for nth in 0..*count {
              positions.push((
                i,
                DiskFault::CrashAtPoint {
                  point: name.clone(),
                  nth,
                  recovery,
                },
              ));
            }
          }
        }
      }
      _ => {}
    }
  }
  ex.finish();
  let total = positions.len() as u64;
  if index >= total {
    return None;
  }
  let (op_index, fault) = positions.swap_remove(index as usize);
  if let Op::Update(u) = &mut sc.ops[op_index] {
    u.disk_fault = Some(fault);
  }
  sc.profile = format!("C13/enumerated total={total} index={index}");
  Some(sc)
}

/// Run the history fault-free and place one fault in it.
pub const ROLLBACK_POINTS: &[&str] = &["reorg.before", "reorg.restored", "reorg.after"];

/// A history whose faulted update has to roll a reorganisation back: the crash
/// lands before, inside or after the rollback, or while the new branch is
/// being indexed on top of the restored savepoint.
fn gen_c13_reorg(seed: u64, thorough: bool) -> Scenario {
  let chain_seed = seed / 8;
  let root = Rng::new(chain_seed);
  let mut crng = root.fork("config");
  let mut wrng = root.fork("workload");
  let mut srng = root.fork("schedule");
  let mut config = gen_config(&mut crng);
  config.index_sats = crng.chance(1, 2);
  config.index_addresses = crng.chance(1, 2);
  config.index_runes = crng.chance(1, 2);
  config.commit_interval = match crng.below(3) {
    0 => 5000,
    _ => 1 + crng.below(6) as u32,
  };
  config.savepoint_interval = 1 + crng.below(6) as u32;
  config.max_savepoints = 2 + crng.below(3) as u32;
  config.integration_test = false;
  let f = Features::swarm(&everything_features(), &mut wrng);
  let mut ops = Vec::new();
  let mut height = 0u32;
  for _ in 0..1 + srng.usize(2) {
    let grow = 2 + srng.usize(if thorough { 30 } else { 16 });
    ops.push(Op::Mine(gen_chain(&mut wrng, &f, grow)));
    height += grow as u32;
    ops.push(Op::Update(UpdateSpec {
      lag: srng.below(32) as u32,
      ..Default::default()
    }));
  }
  // mostly within what the savepoints can undo
  let span = config.savepoint_interval * (config.max_savepoints - 1);
  let depth = match srng.below(5) {
    0 => 1,
    1..=3 => 1 + srng.below(u64::from(span.max(1))) as u32,
    _ => 1 + srng.below(u64::from(span + 3)) as u32,
  }
  .min(height.max(1));
  let blocks = gen_chain(&mut wrng, &f, depth as usize + 1 + srng.usize(4));
  ops.push(Op::Reorg { depth, blocks });
  ops.push(Op::Update(UpdateSpec {
    lag: srng.below(32) as u32,
    ..Default::default()
  }));
  let mut sc = Scenario {
    seed,
    profile: "C13/reorg".into(),
    config,
    ops,
    server: None,
  };

  // probe: what does the update after the reorganisation do?
  let mut frng = Rng::new(seed).fork("fault-placement");
  let mut ex = Exec::new(&sc.config, sc.seed);
  let mut outcome = None;
  for op in &sc.ops {
    match op {
      Op::Mine(b) => ex.mine(b),
      Op::Reorg { depth, blocks } => {
        ex.reorg(*depth, blocks);
      }
      Op::Update(u) => {
        let r = ex.update(u);
        if r.result.is_err() {
          outcome = None;
          break;
        }
        outcome = Some(r.outcome);
      }
      _ => {}
    }
  }
  ex.finish();
  let Some(outcome) = outcome else {
    return sc;
  };
  let recovery = *frng.pick(&[Recovery::Clean, Recovery::Torn, Recovery::AllWritten]);
  let n = outcome.disk_ops.max(1);
  let rollback_points: Vec<(&String, &u32)> = outcome
    .points
    .iter()
    .filter(|(k, _)| ROLLBACK_POINTS.contains(&k.as_str()))
    .collect();
  let fault = match frng.below(10) {
    0..=3 if !rollback_points.is_empty() => {
      let (name, count) = rollback_points[frng.usize(rollback_points.len())];
      DiskFault::CrashAtPoint {
        point: name.clone(),
        nth: frng.below(u64::from(*count)) as u32,
        recovery,
      }
    }
    // the rollback is at the start of the update
    4..=6 => DiskFault::CrashAtOp {
      op: 1 + frng.below(n.min(40)),
      recovery,
    },
    7 => DiskFault::EioAtOp {
      op: 1 + frng.below(n.min(60)),
    },
    _ => DiskFault::CrashAtOp {
      op: 1 + frng.below(n),
      recovery,
    },
  };
  if let Some(Op::Update(u)) = sc.ops.last_mut() {
    u.disk_fault = Some(fault);
  }
  sc
}

pub fn gen_c13(seed: u64, thorough: bool) -> Scenario {
  if thorough
    && let Some(sc) = gen_c13_enumerated(seed)
  {
    return sc;
  }
  // a quarter of the histories (eight placements share one) contain a
  // reorganisation that the faulted update has to roll back
  if (seed / 8) % 4 == 3 {
    return gen_c13_reorg(seed, thorough);
  }
  let mut sc = base_scenario(seed, thorough);
  let mut frng = Rng::new(seed).fork("fault-placement");

  // probe
  let mut ex = Exec::new(&sc.config, sc.seed);
  let mut outcomes = Vec::new();
  for (i, op) in sc.ops.iter().enumerate() {
    match op {
      Op::Mine(b) => ex.mine(b),
      Op::Update(u) => {
        let r = ex.update(u);
        if r.result.is_err() {
          break;
        }
        outcomes.push((i, r.outcome));
      }
      _ => {}
    }
  }
  ex.finish();
  if outcomes.is_empty() {
    return sc;
  }
  let (op_index, outcome) = &outcomes[frng.usize(outcomes.len())];
  let recovery = *frng.pick(&[Recovery::Clean, Recovery::Torn, Recovery::AllWritten]);
  let n = outcome.disk_ops.max(1);
  let fault = match frng.below(10) {
    // first operation after a completed sync
    0..=2 if !outcome.sync_marks.is_empty() => {
      let mark = *frng.pick(&outcome.sync_marks);
      DiskFault::CrashAtOp {
        op: (mark + 1).min(n),
        recovery,
      }
    }
    // the sync itself
    3 if !outcome.sync_marks.is_empty() => DiskFault::CrashAtOp {
      op: *frng.pick(&outcome.sync_marks),
      recovery,
    },
    // a named point
    4..=6 => {
      let hit: Vec<(&String, &u32)> = outcome
        .points
        .iter()
        .filter(|(k, _)| CRASH_POINTS.contains(&k.as_str()))
        .collect();
      if hit.is_empty() {
        DiskFault::CrashAtOp {
          op: 1 + frng.below(n),
          recovery,
        }
      } else {
        let (name, count) = hit[frng.usize(hit.len())];
        DiskFault::CrashAtPoint {
          point: name.clone(),
          nth: frng.below(u64::from(*count)) as u32,
          recovery,
        }
      }
    }
    7 => DiskFault::EioAtOp {
      op: 1 + frng.below(n),
    },
    8 if thorough || frng.chance(1, 2) => DiskFault::Enospc {
      extra_bytes: frng.below(64) * 4096,
    },
    _ => DiskFault::CrashAtOp {
      op: 1 + frng.below(n),
      recovery,
    },
  };
  if let Op::Update(u) = &mut sc.ops[*op_index] {
    u.disk_fault = Some(fault);
  }
  sc
}

fn reference_at(
  cache: &mut BTreeMap<u32, Option<Dump>>,
  config: &Config,
  seed: u64,
  blocks: &[BlockSpec],
  count: u32,
  ctx: &mut Ctx,
) -> Option<Dump> {
  if let Some(d) = cache.get(&count) {
    return d.clone();
  }
  let mut ex = Exec::new(config, seed);
  ex.mine(blocks);
  let r = ex.update(&UpdateSpec {
    lag: 31,
    height_limit: if count as usize == blocks.len() + 1 {
      None
    } else {
      Some(count)
    },
    ..Default::default()
  });
  let d = if fault_free_update_ok(&r, ctx) {
    ex.index().verif_dump().ok().map(|d| oracle::masked(&d))
  } else {
    None
  };
  ex.finish();
  cache.insert(count, d.clone());
  d
}

/// Uninterrupted index of the first `count` blocks of the best chain of the
/// world that `log` describes.
fn reference_in_world(
  config: &Config,
  seed: u64,
  log: &[NodeEvent],
  count: u32,
  ctx: &mut Ctx,
) -> Option<Dump> {
  let mut ex = Exec::new(config, seed);
  let len = ex.sim.snapshot(|s| {
    for e in log {
      s.world.apply_event(e);
    }
    s.world.best.len() as u32
  });
  if count > len {
    ex.finish();
    return None;
  }
  let r = ex.update(&UpdateSpec {
    lag: 31,
    height_limit: if count == len { None } else { Some(count) },
    ..Default::default()
  });
  let d = if fault_free_update_ok(&r, ctx) {
    ex.index().verif_dump().ok().map(|d| oracle::masked(&d))
  } else {
    None
  };
  ex.finish();
  d
}

/// C13 with a reorganisation: the faulted update rolls back to a savepoint.
fn run_c13_reorg(sc: &Scenario) -> RunReport {
  let start = std::time::Instant::now();
  let mut ctx = Ctx {
    property: "C13".into(),
    report: RunReport {
      seed: sc.seed,
      property: "C13".into(),
      profile: sc.profile.clone(),
      ..Default::default()
    },
    oracle_rng: Rng::new(sc.seed).fork("oracle"),
  };
  let mut ex = Exec::new(&sc.config, sc.seed);
  let mut log_before_reorg: Vec<NodeEvent> = Vec::new();
  let mut after_restart: Option<(u32, Dump)> = None;
  let mut fault_seen = false;
  let mut fault_kind = String::new();
  let mut unrecoverable = false;
  let mut rolled_back = 0u64;
  let mut stop = false;

  for op in &sc.ops {
    if stop {
      break;
    }
    match op {
      Op::Mine(b) => ex.mine(b),
      Op::Reorg { depth, blocks } => {
        log_before_reorg = ex.sim.snapshot(|s| s.world_log.clone());
        ex.reorg(*depth, blocks);
      }
      Op::Update(u) if u.disk_fault.is_none() => {
        let r = ex.update(u);
        rolled_back += u64::from(r.outcome.points.get("reorg.after").copied().unwrap_or(0));
        if r.unrecoverable {
          unrecoverable = true;
          stop = true;
        } else if !fault_free_update_ok(&r, &mut ctx) {
          stop = true;
        }
      }
      Op::Update(u) => {
        let r = ex.update(u);
        rolled_back += u64::from(r.outcome.points.get("reorg.after").copied().unwrap_or(0));
        if !r.panics.is_empty() {
          ctx.report.violations.push(v(
            "C13",
            "panic_on_fault",
            format!("{:?} -> panics {:?}", u.disk_fault, r.panics),
          ));
          stop = true;
          continue;
        }
        if r.outcome.budget_exhausted {
          ctx.report.inconclusive = Some("step budget exhausted".into());
          stop = true;
          continue;
        }
        let fault = u.disk_fault.as_ref().unwrap();
        let fired = match fault {
          DiskFault::CrashAtOp { .. } | DiskFault::CrashAtPoint { .. } => r.outcome.crashed,
          DiskFault::EioAtOp { .. } | DiskFault::Enospc { .. } => r.result.is_err() && !r.unrecoverable,
        };
        if !fired {
          if r.unrecoverable {
            unrecoverable = true;
            stop = true;
          } else if !fault_free_update_ok(&r, &mut ctx) {
            stop = true;
          }
          continue;
        }
        fault_seen = true;
        let during = if r.outcome.points.contains_key("reorg.after") {
          "after_rollback"
        } else if r.outcome.points.contains_key("reorg.before") {
          "inside_rollback"
        } else {
          "before_rollback"
        };
        fault_kind = match fault {
          DiskFault::CrashAtOp { recovery, .. } => format!("reorg.{during}.crash_at_op.{recovery:?}"),
          DiskFault::CrashAtPoint { point, recovery, .. } => format!("reorg.crash_at_point.{point}.{recovery:?}"),
          DiskFault::EioAtOp { .. } => format!("reorg.{during}.eio"),
          DiskFault::Enospc { .. } => format!("reorg.{during}.enospc"),
        };
        match fault {
          DiskFault::CrashAtOp { recovery, .. } | DiskFault::CrashAtPoint { recovery, .. } => ex.crash(*recovery),
          _ => ex.close(),
        }
        let drop_panics = crate::exec::take_panics();
        if !drop_panics.is_empty() {
          ctx.report.violations.push(v(
            "C13",
            "panic_on_fault",
            format!("while shutting down after {fault:?}: {drop_panics:?}"),
          ));
          stop = true;
          continue;
        }
        if let Err(e) = ex.open() {
          ctx.report.violations.push(v("C13", "cannot_reopen", format!("after {fault:?}: {e}")));
          stop = true;
          continue;
        }
        let count = ex.index().block_count().unwrap_or(0);
        match ex.index().verif_dump() {
          Ok(d) => after_restart = Some((count, oracle::masked(&d))),
          Err(e) => {
            ctx.report.violations.push(v(
              "C13",
              "unreadable_after_restart",
              format!("after {fault:?}: {e:#}"),
            ));
            stop = true;
            continue;
          }
        }
        // resume on the unchanged node: up to three polls
        let mut last = None;
        for _ in 0..3 {
          let r2 = ex.update(&UpdateSpec {
            lag: u.lag,
            ..Default::default()
          });
          rolled_back += u64::from(r2.outcome.points.get("reorg.after").copied().unwrap_or(0));
          if !r2.panics.is_empty() || r2.outcome.budget_exhausted {
            last = Some(format!("panics {:?}, budget exhausted {}", r2.panics, r2.outcome.budget_exhausted));
            break;
          }
          match &r2.result {
            Ok(()) => {
              last = None;
              break;
            }
            Err(_) if r2.unrecoverable => {
              unrecoverable = true;
              last = None;
              break;
            }
            Err(e) => last = Some(e.clone()),
          }
        }
        if let Some(e) = last {
          ctx.report.violations.push(v(
            "C13",
            "cannot_resume",
            format!("after {fault:?} during a reorganisation and restart: {e}"),
          ));
          stop = true;
        }
      }
      _ => {}
    }
  }

  let mut final_digest = 0;
  let mut resumed: Option<(u32, Dump)> = None;
  if !stop && !unrecoverable && ex.is_open() {
    if let Ok(d) = ex.index().verif_dump() {
      let m = oracle::masked(&d);
      final_digest = oracle::digest(&m);
      resumed = Some((ex.index().block_count().unwrap_or(0), m));
    }
  }
  let (full_log, tip_count) = ex.sim.snapshot(|s| (s.world_log.clone(), s.world.best.len() as u32));
  ctx.report.faults.insert(format!("fired.{fault_kind}"), u64::from(fault_seen));
  ctx.report.facts.insert("c13.reorg.rollbacks".into(), rolled_back);
  ctx.report.facts.insert("c13.reorg.unrecoverable".into(), u64::from(unrecoverable));
  let facts = std::mem::take(&mut ctx.report.facts);
  let report = finish_report(ex, std::mem::take(&mut ctx.report), sc, final_digest);
  ctx.report = report;
  ctx.report.facts.extend(facts);

  if fault_seen && ctx.report.violations.is_empty() && ctx.report.harness_error.is_none() {
    if let Some((count, dump)) = &after_restart {
      // a fully committed height of the abandoned or of the new best chain
      let on_new = reference_in_world(&sc.config, sc.seed, &full_log, *count, &mut ctx);
      let on_old = reference_in_world(&sc.config, sc.seed, &log_before_reorg, *count, &mut ctx);
      ctx.report.checks += 1;
      if on_new.as_ref() != Some(dump) && on_old.as_ref() != Some(dump) {
        let detail = on_new
          .as_ref()
          .or(on_old.as_ref())
          .and_then(|r| oracle::diff(r, dump))
          .unwrap_or_default();
        ctx.report.violations.push(v(
          "C13",
          "inconsistent_after_restart",
          format!(
            "after a crash around a rollback the index reopened at {count} blocks and equals neither the uninterrupted index of that height on the abandoned chain nor on the new one: {detail}"
          ),
        ));
      }
    }
    if ctx.report.violations.is_empty()
      && let Some((count, dump)) = &resumed
    {
      ctx.report.checks += 1;
      if *count != tip_count {
        ctx.report.violations.push(v(
          "C13",
          "tip_not_reached",
          format!("index at {count} blocks, best chain has {tip_count}"),
        ));
      } else if let Some(reference) = reference_in_world(&sc.config, sc.seed, &full_log, tip_count, &mut ctx)
        && &reference != dump
      {
        let detail = oracle::diff(&reference, dump).unwrap_or_default();
        ctx.report.violations.push(v(
          "C13",
          "resumed_result_differs",
          format!("after crash, restart and rollback the index differs from an uninterrupted index of the best chain: {detail}"),
        ));
      }
    } else if unrecoverable {
      ctx.report.checks += 1;
    }
  }
  ctx.report.nontrivial = fault_seen && ctx.report.checks >= 2;
  ctx.report.wall_us = start.elapsed().as_micros() as u64;
  ctx.report
}

pub fn run_c13(sc: &Scenario) -> RunReport {
  if sc.profile.starts_with("C13/reorg") {
    return run_c13_reorg(sc);
  }
  let start = std::time::Instant::now();
  let mut ctx = Ctx {
    property: "C13".into(),
    report: RunReport {
      seed: sc.seed,
      property: "C13".into(),
      profile: sc.profile.clone(),
      ..Default::default()
    },
    oracle_rng: Rng::new(sc.seed).fork("oracle"),
  };
  let blocks = blocks_of(sc);
  let mut ex = Exec::new(&sc.config, sc.seed);
  let mut mined = 0usize;
  let mut pending: Vec<(u32, Dump, &'static str)> = Vec::new(); // dumps to compare with references
  let mut fault_seen = false;
  let mut fault_kind = String::new();
  let mut stop = false;

  for op in &sc.ops {
    if stop {
      break;
    }
    match op {
      Op::Mine(b) => {
        ex.mine(b);
        mined += b.len();
      }
      Op::Update(u) if u.disk_fault.is_none() => {
        let r = ex.update(u);
        if !fault_free_update_ok(&r, &mut ctx) {
          stop = true;
        }
      }
      Op::Update(u) => {
        let before = if ex.is_open() {
          ex.index().block_count().unwrap_or(0)
        } else {
          // the index is opened (fault-free) by the update itself
          0
        };
        let r = ex.update(u);
        if !r.panics.is_empty() {
          ctx.report.violations.push(v(
            "C13",
            "panic_on_fault",
            format!("{:?} -> panics {:?}", u.disk_fault, r.panics),
          ));
          stop = true;
          continue;
        }
        if r.outcome.budget_exhausted {
          ctx.report.inconclusive = Some("step budget exhausted".into());
          stop = true;
          continue;
        }
        let fault = u.disk_fault.as_ref().unwrap();
        let fired = match fault {
          DiskFault::CrashAtOp { .. } | DiskFault::CrashAtPoint { .. } => r.outcome.crashed,
          DiskFault::EioAtOp { .. } | DiskFault::Enospc { .. } => r.result.is_err(),
        };
        if !fired {
          // the fault was placed beyond what this execution did: plain update
          if !fault_free_update_ok(&r, &mut ctx) {
            stop = true;
          }
          continue;
        }
        fault_seen = true;
        fault_kind = match fault {
          DiskFault::CrashAtOp { recovery, .. } => format!("crash_at_op.{recovery:?}"),
          DiskFault::CrashAtPoint { point, recovery, .. } => format!("crash_at_point.{point}.{recovery:?}"),
          DiskFault::EioAtOp { .. } => "eio".into(),
          DiskFault::Enospc { .. } => "enospc".into(),
        };
        if r.result.is_ok() {
          // a crash that the update did not notice can only be one that fired
          // during the very last operations; still restart from the disk
        }
        match fault {
          DiskFault::CrashAtOp { recovery, .. } | DiskFault::CrashAtPoint { recovery, .. } => ex.crash(*recovery),
          // the process saw an I/O error and exits normally
          _ => ex.close(),
        }
        let drop_panics = crate::exec::take_panics();
        if !drop_panics.is_empty() {
          ctx.report.violations.push(v(
            "C13",
            "panic_on_fault",
            format!("while shutting down after {fault:?}: {drop_panics:?}"),
          ));
          stop = true;
          continue;
        }
        // restart
        if let Err(e) = ex.open() {
          ctx.report.violations.push(v(
            "C13",
            "cannot_reopen",
            format!("after {fault:?}: {e}"),
          ));
          stop = true;
          continue;
        }
        let count = ex.index().block_count().unwrap_or(0);
        let acked = r.outcome.last_commit_acked.unwrap_or(u64::from(before)).max(u64::from(before));
        let upper = r
          .outcome
          .max_block_received
          .map(|h| h + 1)
          .unwrap_or(u64::from(before))
          .max(u64::from(before));
        if u64::from(count) < acked {
          ctx.report.violations.push(v(
            "C13",
            "acknowledged_commit_lost",
            format!("after {fault:?}: index reopened at {count} blocks, commit at {acked} had been acknowledged"),
          ));
          stop = true;
          continue;
        }
        if u64::from(count) > upper {
          ctx.report.violations.push(v(
            "C13",
            "state_from_the_future",
            format!("after {fault:?}: index reopened at {count} blocks, only {upper} were received"),
          ));
          stop = true;
          continue;
        }
        match ex.index().verif_dump() {
          Ok(d) => pending.push((count, oracle::masked(&d), "after_restart")),
          Err(e) => {
            ctx.report.violations.push(v(
              "C13",
              "unreadable_after_restart",
              format!("after {fault:?}: {e:#}"),
            ));
            stop = true;
            continue;
          }
        }
        // resume: the interrupted update, re-issued without the fault
        let r2 = ex.update(&UpdateSpec {
          lag: u.lag,
          ..Default::default()
        });
        if r2.result.is_err() || !r2.panics.is_empty() {
          ctx.report.violations.push(v(
            "C13",
            "cannot_resume",
            format!("after {fault:?} and restart: update returned {:?}, panics {:?}", r2.result, r2.panics),
          ));
          stop = true;
        }
      }
      Op::Reopen => {
        if ex.is_open() {
          ex.reopen().ok();
        }
      }
      _ => {}
    }
  }

  let mut final_digest = 0;
  if !stop && ex.is_open() {
    // make sure the tip is reached
    let r = ex.update(&UpdateSpec {
      lag: 31,
      ..Default::default()
    });
    if r.result.is_err() || !r.panics.is_empty() {
      if fault_seen {
        ctx.report.violations.push(v(
          "C13",
          "cannot_resume",
          format!("final update returned {:?}, panics {:?}", r.result, r.panics),
        ));
      } else {
        ctx.report.inconclusive = Some(format!("final update {:?}", r.result));
      }
    } else if let Ok(d) = ex.index().verif_dump() {
      let m = oracle::masked(&d);
      final_digest = oracle::digest(&m);
      let count = ex.index().block_count().unwrap_or(0);
      if count as usize != mined + 1 {
        ctx.report.violations.push(v(
          "C13",
          "tip_not_reached",
          format!("index at {count} blocks, chain has {}", mined + 1),
        ));
      }
      pending.push((count, m, "resumed_to_tip"));
    }
  }

  ctx.report.faults.insert(format!("fired.{fault_kind}"), u64::from(fault_seen));
  if let Some(rest) = sc.profile.strip_prefix("C13/enumerated ") {
    for part in rest.split_whitespace() {
      if let Some((k, val)) = part.split_once('=')
        && let Ok(n) = val.parse::<u64>()
      {
        ctx.report.facts.insert(format!("c13.enum.{k}"), n);
      }
    }
  }
  let report = finish_report(ex, std::mem::take(&mut ctx.report), sc, final_digest);
  ctx.report = report;

  if fault_seen && ctx.report.violations.is_empty() && ctx.report.harness_error.is_none() {
    let mut cache = BTreeMap::new();
    for (count, dump, stage) in &pending {
      let Some(reference) = reference_at(&mut cache, &sc.config, sc.seed, &blocks, *count, &mut ctx) else {
        break;
      };
      ctx.report.checks += 1;
      if &reference != dump {
        let detail = oracle::diff(&reference, dump).unwrap_or_default();
        let class = if *stage == "after_restart" {
          "inconsistent_after_restart"
        } else {
          "resumed_result_differs"
        };
        ctx.report.violations.push(v(
          "C13",
          class,
          format!("{stage} at {count} blocks vs uninterrupted index of the same height: {detail}"),
        ));
        break;
      }
    }
  }
  ctx.report.nontrivial = fault_seen && ctx.report.checks >= 2;
  ctx.report.wall_us = start.elapsed().as_micros() as u64;
  ctx.report
}
