//! The simulator proper: implements ord's `verif::Hooks`. Owns the node, the
//! disk, the clock, the thread gates, the fault plan and the trace.

use {
  crate::{
    disk::SimDisk,
    rng::Rng,
    scenario::*,
    world::{RpcError, World},
  },
  anyhow::anyhow,
  bitcoincore_rpc::jsonrpc,
  serde_json::{Value, json},
  std::{
    collections::BTreeMap,
    fmt,
    path::{Path, PathBuf},
    sync::{Arc, Condvar, Mutex, MutexGuard},
    thread::{self, ThreadId},
    time::Duration,
  },
};

const WAIT_SLICE: Duration = Duration::from_millis(200);
/// real-time bound on any single wait inside the simulator: exceeding it is a
/// harness error (exit 2), never a reported violation
const WAIT_LIMIT: Duration = Duration::from_secs(60);

#[derive(Debug, Clone, PartialEq, Eq)]
enum FState {
  Running,
  Parked(u32),
  Exited,
}

#[derive(Debug)]
struct FThread {
  id: ThreadId,
  state: FState,
  stale: bool,
}

#[derive(Default, Debug, Clone)]
pub struct UpdateOutcome {
  pub points: BTreeMap<String, u32>,
  pub rpc_m: u32,
  pub rpc_f: u32,
  pub rpc_t: u32,
  pub faults_fired: BTreeMap<String, u32>,
  pub crashed: bool,
  pub budget_exhausted: bool,
  pub node_events_applied: u32,
  pub disk_ops: u64,
  pub sync_marks: Vec<u64>,
  /// block count of the last commit that returned (acknowledged) in this update
  pub last_commit_acked: Option<u64>,
  /// highest block height M received in this update
  pub max_block_received: Option<u64>,
  /// named points in the order reached (name, arg)
  pub point_log: Vec<(String, u64)>,
}

pub struct SimState {
  pub world: World,
  pub disk: Option<SimDisk>,
  pub index_path: PathBuf,
  pub rpc_url: String,

  // threads
  m_thread: Option<ThreadId>,
  in_update: bool,
  f_threads: Vec<FThread>,
  m_next: u32,
  lag: u32,
  spawned: u32,
  f_exited: u32,
  t_exited: u32,
  t_alive: bool,

  // batch gate
  cuts: Vec<u32>,
  cut_cursor: usize,
  sent_in_block: u32,
  next_cut_at: Option<u32>,
  sent_total: u64,
  drained_total: u64,
  delivered_total: u64,
  gate_open: bool,
  batch_reorder: bool,
  batch_sizes: Vec<u32>,

  // plan of the current update
  rpc_faults: Vec<RpcFault>,
  node_events: Vec<PointEvent>,
  crash_point: Option<(String, u32)>,

  // accounting
  pub outcome: UpdateOutcome,
  pub probes: BTreeMap<&'static str, u64>,
  pub faults_total: BTreeMap<String, u64>,
  pub clock_ms: u64,
  pub steps: u64,
  pub steps_total: u64,
  pub step_budget: u64,
  pub trace: u64,
  pub trace_len: u64,
  pub trace_log: Option<Vec<String>>,
  pub harness_error: Option<String>,
  pub first_inscription_height: Option<u32>,
  /// a second caller of `Index::update` (see `UpdateSpec::competing_update`)
  pub competitor: Option<Arc<dyn Fn() + Send + Sync>>,
  competitor_nth: Option<u32>,
  post_commit_writes: u32,
  last_point: &'static str,
  /// every mutation applied to the simulated node, in order
  pub world_log: Vec<NodeEvent>,
  /// the explorer router handed over by `Server::run`
  pub router: Option<axum::Router>,
  sched_rng: Rng,
}

pub struct Sim {
  state: Mutex<SimState>,
  cv: Condvar,
}

fn fnv(mut h: u64, bytes: &[u8]) -> u64 {
  for b in bytes {
    h ^= u64::from(*b);
    h = h.wrapping_mul(0x100000001b3);
  }
  h
}

impl SimState {
  pub fn note(&mut self, what: &str) {
    self.trace = fnv(self.trace, what.as_bytes());
    self.trace = fnv(self.trace, &[0xff]);
    self.trace_len += 1;
    if let Some(log) = &mut self.trace_log {
      log.push(what.to_string());
    }
  }

  fn fired(&mut self, kind: &str) {
    *self.outcome.faults_fired.entry(kind.into()).or_default() += 1;
    *self.faults_total.entry(kind.into()).or_default() += 1;
  }

  fn f_quiescent(&self) -> bool {
    self
      .f_threads
      .iter()
      .all(|f| !matches!(f.state, FState::Running))
  }

  fn step(&mut self) -> bool {
    self.steps += 1;
    self.steps_total += 1;
    if self.steps > self.step_budget {
      self.outcome.budget_exhausted = true;
      false
    } else {
      true
    }
  }
}

impl Sim {
  pub fn new(config: &Config) -> Arc<Self> {
    Arc::new(Self {
      state: Mutex::new(SimState {
        world: World::new(config),
        disk: None,
        index_path: PathBuf::from("/ordsim/index.redb"),
        rpc_url: "sim.invalid:1".into(),
        m_thread: None,
        in_update: false,
        f_threads: Vec::new(),
        m_next: 0,
        lag: 31,
        spawned: 0,
        f_exited: 0,
        t_exited: 0,
        t_alive: false,
        cuts: Vec::new(),
        cut_cursor: 0,
        sent_in_block: 0,
        next_cut_at: None,
        sent_total: 0,
        drained_total: 0,
        delivered_total: 0,
        gate_open: false,
        batch_reorder: false,
        batch_sizes: Vec::new(),
        rpc_faults: Vec::new(),
        node_events: Vec::new(),
        crash_point: None,
        outcome: UpdateOutcome::default(),
        probes: BTreeMap::new(),
        faults_total: BTreeMap::new(),
        clock_ms: 0,
        steps: 0,
        steps_total: 0,
        step_budget: u64::MAX,
        trace: 0xcbf29ce484222325,
        trace_len: 0,
        trace_log: None,
        harness_error: None,
        first_inscription_height: config.first_inscription_height,
        competitor: None,
        competitor_nth: None,
        post_commit_writes: 0,
        last_point: "",
        world_log: Vec::new(),
        router: None,
        sched_rng: Rng::new(0),
      }),
      cv: Condvar::new(),
    })
  }

  pub fn lock(&self) -> MutexGuard<'_, SimState> {
    self.state.lock().unwrap_or_else(|e| e.into_inner())
  }

  /// Wait on the condition variable until `done`; a real-time limit turns a
  /// stuck simulation into a harness error instead of a hang.
  fn wait_until<'a>(
    &'a self,
    mut guard: MutexGuard<'a, SimState>,
    what: &str,
    mut done: impl FnMut(&mut SimState) -> bool,
  ) -> MutexGuard<'a, SimState> {
    let start = std::time::Instant::now();
    while !done(&mut guard) {
      if guard.harness_error.is_some() {
        break;
      }
      if start.elapsed() > WAIT_LIMIT {
        guard.harness_error = Some(format!("simulator wait timed out: {what}"));
        self.cv.notify_all();
        break;
      }
      guard = self
        .cv
        .wait_timeout(guard, WAIT_SLICE)
        .unwrap_or_else(|e| e.into_inner())
        .0;
    }
    guard
  }

  /// Arm the plan for one `Index::update` call about to run on `m_thread`.
  pub fn begin_update(&self, m_thread: ThreadId, spec: &UpdateSpec, seed: u64, blocks_hint: u64) {
    let mut s = self.lock();
    s.m_thread = Some(m_thread);
    s.in_update = true;
    s.f_threads.clear();
    s.lag = spec.lag.min(31);
    s.spawned = 0;
    s.f_exited = 0;
    s.t_exited = 0;
    s.t_alive = false;
    s.cuts = spec.batch_cuts.clone();
    s.cut_cursor = 0;
    s.sent_in_block = 0;
    s.next_cut_at = None;
    s.sent_total = 0;
    s.drained_total = 0;
    s.delivered_total = 0;
    s.gate_open = false;
    s.batch_reorder = spec.batch_reorder;
    s.batch_sizes.clear();
    s.rpc_faults = spec.rpc_faults.clone();
    s.node_events = spec.node_events.clone();
    s.competitor_nth = spec.competing_update;
    s.post_commit_writes = 0;
    s.last_point = "";
    s.crash_point = match &spec.disk_fault {
      Some(DiskFault::CrashAtPoint { point, nth, .. }) => Some((point.clone(), *nth)),
      _ => None,
    };
    s.outcome = UpdateOutcome::default();
    s.steps = 0;
    s.step_budget = 50 * blocks_hint + 10_000;
    s.sched_rng = Rng::new(seed).fork("sched");
    let msg = format!("update.begin lag={} cuts={:?}", s.lag, s.cuts);
    s.note(&msg);
  }

  /// Called by the driver after `Index::update` returned on M: release and
  /// wait for the background threads, disarm the plan.
  pub fn end_update(&self) -> UpdateOutcome {
    let mut s = self.lock();
    for f in &mut s.f_threads {
      f.stale = true;
    }
    s.gate_open = true;
    self.cv.notify_all();
    s = self.wait_until(s, "background threads to exit", |s| {
      s.f_exited >= s.spawned && s.t_exited >= s.spawned
    });
    s.in_update = false;
    s.m_thread = None;
    s.rpc_faults.clear();
    s.node_events.clear();
    s.crash_point = None;
    if let Some(disk) = &s.disk {
      let (ops, marks, crashed, digest) =
        disk.with(|d| (d.ops_since_arm, d.sync_marks.clone(), d.crash_fired, d.digest));
      let msg = format!("disk ops={ops} digest={digest:x}");
      s.note(&msg);
      s.outcome.disk_ops = ops;
      s.outcome.sync_marks = marks;
      s.outcome.crashed |= crashed;
    }
    let outcome = s.outcome.clone();
    let msg = format!(
      "update.end rpc m={} f={} t={} batches={:?} points={}",
      outcome.rpc_m,
      outcome.rpc_f,
      outcome.rpc_t,
      s.batch_sizes,
      outcome.points.values().sum::<u32>()
    );
    s.note(&msg);
    outcome
  }

  fn client_kind(s: &SimState) -> ClientKind {
    if s.in_update && s.m_thread != Some(thread::current().id()) {
      ClientKind::F
    } else {
      ClientKind::M
    }
  }

  /// Decide whether the `nth` call of `client` in this update fails.
  fn rpc_fault(s: &mut SimState, client: ClientKind, nth: u32) -> Option<RpcFaultKind> {
    let hit = s
      .rpc_faults
      .iter()
      .find(|f| f.client == client && nth >= f.nth && nth < f.nth + f.times)
      .map(|f| f.kind);
    if let Some(kind) = hit {
      s.fired(&format!("rpc_fault.{client:?}.{kind:?}"));
    }
    hit
  }

  fn serve(
    &self,
    method: &str,
    params: &[Value],
    wallet: Option<&str>,
  ) -> Result<Result<Value, RpcError>, jsonrpc::Error> {
    let mut s = self.lock();
    let client = Self::client_kind(&s);
    let nth = match client {
      ClientKind::M => {
        s.outcome.rpc_m += 1;
        s.outcome.rpc_m - 1
      }
      _ => {
        s.outcome.rpc_f += 1;
        s.outcome.rpc_f - 1
      }
    };
    if !s.step() {
      return Err(jsonrpc::Error::Transport(Box::new(std::io::Error::other(
        "simulation step budget exhausted",
      ))));
    }
    if s.in_update
      && let Some(kind) = Self::rpc_fault(&mut s, client, nth)
    {
      s.note(&format!("rpc {client:?} {method} -> fault {kind:?}"));
      return match kind {
        RpcFaultKind::Warmup => Ok(Err(RpcError {
          code: -28,
          message: "Loading block index…".into(),
        })),
        RpcFaultKind::Transport => Err(jsonrpc::Error::Transport(Box::new(std::io::Error::new(
          std::io::ErrorKind::WouldBlock,
          "Resource temporarily unavailable (os error 11)",
        )))),
        RpcFaultKind::Http500 => Err(jsonrpc::Error::Transport(Box::new(std::io::Error::other(
          "HTTP error 500: Work queue depth exceeded",
        )))),
      };
    }
    let result = s.world.rpc_wallet(wallet, method, params);
    let digest = match &result {
      Ok(v) => fnv(0xcbf29ce484222325, v.to_string().as_bytes()),
      Err(e) => e.code as u64,
    };
    s.note(&format!("rpc {client:?} {method} {} -> {digest:x}", Value::from(params.to_vec())));
    Ok(result)
  }

  pub fn snapshot<R>(&self, f: impl FnOnce(&mut SimState) -> R) -> R {
    f(&mut self.lock())
  }
}

// ------------------------------------------------------------------ transport

struct SimTransport(Arc<Sim>, Option<String>);

impl jsonrpc::Transport for SimTransport {
  fn send_request(&self, request: jsonrpc::Request) -> Result<jsonrpc::Response, jsonrpc::Error> {
    let params: Vec<Value> = match request.params {
      Some(raw) => serde_json::from_str(raw.get()).unwrap_or_default(),
      None => Vec::new(),
    };
    let result = self.0.serve(request.method, &params, self.1.as_deref())?;
    Ok(match result {
      Ok(value) => jsonrpc::Response {
        result: Some(serde_json::value::to_raw_value(&value).unwrap()),
        error: None,
        id: request.id,
        jsonrpc: Some("2.0".into()),
      },
      Err(e) => jsonrpc::Response {
        result: None,
        error: Some(jsonrpc::error::RpcError {
          code: e.code,
          message: e.message,
          data: None,
        }),
        id: request.id,
        jsonrpc: Some("2.0".into()),
      },
    })
  }

  fn send_batch(&self, requests: &[jsonrpc::Request]) -> Result<Vec<jsonrpc::Response>, jsonrpc::Error> {
    requests
      .iter()
      .map(|r| {
        self.send_request(jsonrpc::Request {
          method: r.method,
          params: r.params,
          id: r.id.clone(),
          jsonrpc: r.jsonrpc,
        })
      })
      .collect()
  }

  fn fmt_target(&self, f: &mut fmt::Formatter) -> fmt::Result {
    write!(f, "simulated-node")
  }
}

// ---------------------------------------------------------------------- hooks

pub struct SimHooks(pub Arc<Sim>);

const CRASH: &str = "simulated crash";

impl ord::verif::Hooks for SimHooks {
  fn rpc_client(&self, url: &str) -> Option<anyhow::Result<bitcoincore_rpc::Client>> {
    let sim = &self.0;
    {
      let mut s = sim.lock();
      if !url.contains(&s.rpc_url) {
        return None;
      }
      if s.in_update && s.m_thread == Some(thread::current().id()) {
        // `fetch_blocks_from` creates one client per `update_index` call, on M,
        // right before spawning F (and then T)
        s.spawned += 1;
        s.t_alive = true;
      }
    }
    let wallet = url
      .split("/wallet/")
      .nth(1)
      .map(|w| w.trim_end_matches('/').to_string())
      .filter(|w| !w.is_empty());
    Some(Ok(bitcoincore_rpc::Client::from_jsonrpc(
      jsonrpc::Client::with_transport(SimTransport(sim.clone(), wallet)),
    )))
  }

  fn fetch_rpc(&self, body: &str) -> Option<anyhow::Result<String>> {
    let sim = &self.0;
    let mut s = sim.lock();
    let nth = s.outcome.rpc_t;
    s.outcome.rpc_t += 1;
    if !s.step() {
      return Some(Err(anyhow!("simulation step budget exhausted")));
    }
    if let Some(kind) = Sim::rpc_fault(&mut s, ClientKind::T, nth) {
      s.note(&format!("rpc T batch -> fault {kind:?}"));
      return Some(Err(anyhow!("simulated transport failure: {kind:?}")));
    }
    let requests: Vec<Value> = match serde_json::from_str(body) {
      Ok(Value::Array(v)) => v,
      _ => return Some(Err(anyhow!("simulated node: malformed batch"))),
    };
    let mut replies = Vec::new();
    for r in &requests {
      let method = r["method"].as_str().unwrap_or("");
      let params = r["params"].as_array().cloned().unwrap_or_default();
      let id = r["id"].clone();
      match s.world.rpc(method, &params) {
        Ok(v) => replies.push(json!({"result": v, "error": null, "id": id})),
        Err(e) => replies.push(json!({
          "result": null,
          "error": {"code": e.code, "message": e.message},
          "id": id,
        })),
      }
    }
    if s.batch_reorder && replies.len() > 1 {
      let mut rng = s.sched_rng.clone();
      rng.shuffle(&mut replies);
      s.sched_rng = rng;
      s.fired("batch_reorder");
    }
    s.note(&format!("rpc T batch n={}", requests.len()));
    Some(Ok(Value::Array(replies).to_string()))
  }

  fn sleep(&self, duration: Duration) -> bool {
    let mut s = self.0.lock();
    s.clock_ms += duration.as_millis() as u64;
    *s.probes.entry("sleep.diverted").or_default() += 1;
    true
  }

  fn storage(&self, path: &Path) -> Option<Box<dyn redb::StorageBackend>> {
    let s = self.0.lock();
    if path == s.index_path {
      s.disk
        .as_ref()
        .map(|d| Box::new(d.clone()) as Box<dyn redb::StorageBackend>)
    } else {
      None
    }
  }

  fn point(&self, name: &'static str, arg: u64) -> anyhow::Result<()> {
    let sim = &self.0;
    let mut s = sim.lock();
    if !s.in_update || s.m_thread != Some(thread::current().id()) {
      return Ok(());
    }

    if !s.step() {
      return Err(anyhow!("simulation step budget exhausted"));
    }

    let nth = {
      let n = s.outcome.points.entry(name.to_string()).or_default();
      *n += 1;
      *n - 1
    };

    if s.outcome.point_log.len() < 4096 {
      s.outcome.point_log.push((name.to_string(), arg));
    }
    // the write transaction that follows a mid-batch commit: ord re-reads the
    // block count there because "another update has run between committing
    // and beginning the new write transaction"
    let after_commit = name == "begin_write" && s.last_point == "commit.done";
    s.last_point = name;
    if after_commit {
      let n = s.post_commit_writes;
      s.post_commit_writes += 1;
      if s.competitor_nth == Some(n)
        && let Some(run) = s.competitor.take()
      {
        // the prefetch thread of this updater stops where it is; what it has
        // queued stays queued
        for f in &mut s.f_threads {
          f.stale = true;
        }
        sim.cv.notify_all();
        s = sim.wait_until(s, "prefetch thread to stop before the competing update", |s| {
          s.f_threads.iter().all(|f| f.state == FState::Exited)
        });
        s.fired("competing_update");
        s.note("competing update begins");
        drop(s);
        run();
        s = sim.lock();
        s.last_point = "";
        s.note("competing update ends");
      }
    }
    match name {
      "commit.after_first" => {
        s.outcome.last_commit_acked = Some(arg);
      }
      "block.received" => {
        s.outcome.max_block_received = Some(arg);
        s.m_next = arg as u32 + 1;
        s.sent_in_block = 0;
        s.next_cut_at = None;
        // a prefetch thread parked at a height that is now permitted is about
        // to run: count it as running so that M waits for it to park again
        let limit = s.m_next.saturating_add(s.lag);
        for f in &mut s.f_threads {
          if let FState::Parked(h) = f.state
            && h <= limit
            && !f.stale
          {
            f.state = FState::Running;
          }
        }
        sim.cv.notify_all();
      }
      "reorg.before" => {
        // an update that keeps rolling back makes no progress: cut it short
        // (reported as non-termination by the C14 check)
        if nth >= 12 {
          s.outcome.budget_exhausted = true;
          s.step_budget = 0;
        }
        // M has left `update_index`: its F and T are orphaned
        for f in &mut s.f_threads {
          f.stale = true;
        }
        s.gate_open = true;
        sim.cv.notify_all();
        s = sim.wait_until(s, "orphaned threads to exit", |s| {
          s.f_exited >= s.spawned && s.t_exited >= s.spawned
        });
        s.gate_open = false;
      }
      "outpoint.sent" => {
        s.sent_total += 1;
        s.sent_in_block += 1;
        if s.next_cut_at.is_none() && !s.cuts.is_empty() {
          let c = s.cuts[s.cut_cursor % s.cuts.len()].max(1);
          s.cut_cursor += 1;
          s.next_cut_at = Some(s.sent_in_block - 1 + c);
        }
        if s.next_cut_at == Some(s.sent_in_block) {
          s.next_cut_at = None;
          s.gate_open = true;
          sim.cv.notify_all();
          s = sim.wait_until(s, "fetcher to deliver a batch", |s| {
            !s.t_alive || s.delivered_total == s.sent_total
          });
          s.gate_open = false;
        }
        // this point is only a gate
        return Ok(());
      }
      "outpoints.done" => {
        if s.sent_total > s.delivered_total {
          s.gate_open = true;
          sim.cv.notify_all();
          s = sim.wait_until(s, "fetcher to deliver the block's outputs", |s| {
            !s.t_alive || s.delivered_total == s.sent_total
          });
          s.gate_open = false;
        }
        return Ok(());
      }
      _ => {}
    }

    // every M point first waits for the prefetch thread to be quiescent, so
    // that (M position, F position) is a function of the schedule alone
    s = sim.wait_until(s, "prefetch thread to be quiescent", |s| s.f_quiescent());
    if let Some(e) = &s.harness_error {
      return Err(anyhow!("harness error: {e}"));
    }

    s.note(&format!("point {name} {arg} #{nth}"));

    // node events scheduled for this point
    let due: Vec<NodeEvent> = s
      .node_events
      .iter()
      .filter(|e| e.point == name && e.nth == nth)
      .map(|e| e.event.clone())
      .collect();
    for event in due {
      match &event {
        NodeEvent::Mine(b) => {
          s.fired("chain_growth_during_update");
          s.note(&format!("event mine {}", b.len()));
        }
        NodeEvent::Reorg { depth, blocks } => {
          s.fired("reorg_during_update");
          s.note(&format!("event reorg depth={depth} new={}", blocks.len()));
        }
      }
      s.world.apply_event(&event);
      s.world_log.push(event.clone());
      s.outcome.node_events_applied += 1;
    }

    // named crash point
    if let Some((point, at)) = &s.crash_point
      && point == name
      && *at == nth
    {
      s.crash_point = None;
      if let Some(disk) = &s.disk {
        disk.kill();
      }
      s.outcome.crashed = true;
      s.fired("crash_at_point");
      s.note(&format!("crash at point {name}#{nth}"));
      return Err(anyhow!(CRASH));
    }

    Ok(())
  }

  fn probe(&self, name: &'static str) {
    let mut s = self.0.lock();
    *s.probes.entry(name).or_default() += 1;
  }

  fn fetch_gate(&self, height: u32) -> bool {
    let sim = &self.0;
    let me = thread::current().id();
    let mut s = sim.lock();
    if !s.in_update {
      return true;
    }
    if !s.f_threads.iter().any(|f| f.id == me) {
      s.f_threads.push(FThread {
        id: me,
        state: FState::Running,
        stale: false,
      });
      s.m_next = height;
    }
    let mut stop = false;
    s = sim.wait_until(s, "prefetch gate", |s| {
      let allowed = height <= s.m_next.saturating_add(s.lag);
      let f = s.f_threads.iter_mut().find(|f| f.id == me).unwrap();
      if f.stale {
        stop = true;
        return true;
      }
      if allowed {
        f.state = FState::Running;
        true
      } else {
        if f.state != FState::Parked(height) {
          f.state = FState::Parked(height);
          sim.cv.notify_all();
        }
        false
      }
    });
    if s.harness_error.is_some() {
      return true;
    }
    stop
  }

  fn thread_exit(&self, name: &'static str) {
    let sim = &self.0;
    let me = thread::current().id();
    let mut s = sim.lock();
    match name {
      "F" => {
        s.f_exited += 1;
        if let Some(f) = s.f_threads.iter_mut().find(|f| f.id == me) {
          f.state = FState::Exited;
        }
      }
      "T" => {
        s.t_exited += 1;
        if s.t_exited >= s.spawned {
          s.t_alive = false;
        }
      }
      _ => {}
    }
    sim.cv.notify_all();
  }

  fn batch_wait(&self) {
    let sim = &self.0;
    let s = sim.lock();
    if !s.in_update {
      return;
    }
    let _s = sim.wait_until(s, "batch gate", |s| s.gate_open || !s.in_update);
  }

  fn batch_drained(&self, n: usize) {
    let mut s = self.0.lock();
    s.drained_total += n as u64;
    s.batch_sizes.push(n as u32);
    *s.probes.entry("fetch.batches").or_default() += 1;
    if n > 1 {
      *s.probes.entry("fetch.multi_outpoint_batch").or_default() += 1;
    }
  }

  fn batch_delivered(&self) {
    let mut s = self.0.lock();
    s.delivered_total = s.drained_total;
    self.0.cv.notify_all();
  }

  fn skip_index_thread(&self) -> bool {
    true
  }

  fn router(&self, router: &axum::Router) -> bool {
    self.0.lock().router = Some(router.clone());
    true
  }

  fn first_inscription_height(&self) -> Option<u32> {
    self.0.lock().first_inscription_height
  }

  fn entropy(&self) -> Option<[u8; 32]> {
    let mut s = self.0.lock();
    s.world.wallet_side.entropy_draws += 1;
    let n = s.world.wallet_side.entropy_draws;
    crate::world::derive("reveal-key", n, 32).try_into().ok()
  }
}
