//! Minimisation: shrink a failing scenario while the same violation class
//! persists. Every candidate is a complete, executable scenario (selectors
//! are modular), so deleting and simplifying is always legal.

use crate::scenario::*;

pub struct Shrunk {
  pub scenario: Scenario,
  pub runs: u32,
}

fn fails(property: &str, sc: &Scenario, class: &str, runs: &mut u32) -> bool {
  *runs += 1;
  let r = crate::runner::run_isolated(property, sc);
  r.harness_error.is_none() && r.violations.iter().any(|v| v.class == class)
}

fn block_count(sc: &Scenario) -> usize {
  sc.ops
    .iter()
    .map(|op| match op {
      Op::Mine(b) => b.len(),
      Op::Reorg { blocks, .. } => blocks.len(),
      _ => 0,
    })
    .sum()
}

/// All block specs of a scenario, mutable, in order.
fn blocks_mut(sc: &mut Scenario) -> Vec<&mut BlockSpec> {
  let mut v = Vec::new();
  for op in &mut sc.ops {
    match op {
      Op::Mine(b) => v.extend(b.iter_mut()),
      Op::Reorg { blocks, .. } => v.extend(blocks.iter_mut()),
      Op::Update(u) => {
        for e in &mut u.node_events {
          match &mut e.event {
            NodeEvent::Mine(b) => v.extend(b.iter_mut()),
            NodeEvent::Reorg { blocks, .. } => v.extend(blocks.iter_mut()),
          }
        }
      }
      _ => {}
    }
  }
  v
}

pub fn shrink(property: &str, original: &Scenario, class: &str, budget: u32) -> Shrunk {
  let mut best = original.clone();
  let mut runs = 0u32;

  macro_rules! attempt {
    ($cand:expr) => {{
      let cand: Scenario = $cand;
      if runs < budget && cand != best && fails(property, &cand, class, &mut runs) {
        best = cand;
        true
      } else {
        false
      }
    }};
  }

  // 1. shortest failing prefix of the op list
  let mut lo = 1usize;
  let mut hi = best.ops.len();
  while lo < hi && runs < budget {
    let mid = (lo + hi) / 2;
    let mut cand = best.clone();
    cand.ops.truncate(mid);
    if fails(property, &cand, class, &mut runs) {
      hi = mid;
      best = cand;
    } else {
      lo = mid + 1;
    }
  }

  // 2. drop reopen / check ops, simplify update schedules
  let mut i = 0;
  while i < best.ops.len() && runs < budget {
    let current = best.ops[i].clone();
    match &current {
      Op::Reopen | Op::Check => {
        let mut cand = best.clone();
        cand.ops.remove(i);
        if attempt!(cand) {
          continue;
        }
      }
      Op::Update(u) => {
        // remove an intermediate update entirely
        if i + 1 < best.ops.len() {
          let mut cand = best.clone();
          cand.ops.remove(i);
          if attempt!(cand) {
            continue;
          }
        }
        let plain = UpdateSpec {
          lag: 31,
          disk_fault: u.disk_fault.clone(),
          node_events: u.node_events.clone(),
          ..Default::default()
        };
        if *u != plain {
          let mut cand = best.clone();
          cand.ops[i] = Op::Update(plain);
          attempt!(cand);
        }
      }
      _ => {}
    }
    i += 1;
  }

  // 3. simpler configuration
  for step in 0..8 {
    let mut cand = best.clone();
    match step {
      0 => cand.config.commit_interval = 5000,
      1 => cand.config.integration_test = false,
      2 => cand.config.index_transactions = false,
      3 => cand.config.index_cache_size = 1 << 24,
      4 => cand.config.bitcoin_rpc_limit = 12,
      5 => cand.config.savepoint_interval = 10,
      6 => cand.config.max_savepoints = 2,
      _ => cand.config.events = false,
    }
    attempt!(cand);
  }

  // 4. merge consecutive Mine ops (fewer update calls)
  let mut i = 0;
  while i + 2 < best.ops.len() && runs < budget {
    if let (Op::Mine(a), Op::Update(_), Op::Mine(b)) = (&best.ops[i], &best.ops[i + 1], &best.ops[i + 2]) {
      let mut merged = a.clone();
      merged.extend(b.iter().cloned());
      let mut cand = best.clone();
      cand.ops[i] = Op::Mine(merged);
      cand.ops.remove(i + 2);
      cand.ops.remove(i + 1);
      if attempt!(cand) {
        continue;
      }
    }
    i += 1;
  }

  // 5. empty whole blocks of transactions, from the end
  let n = block_count(&best);
  for k in (0..n).rev() {
    if runs >= budget {
      break;
    }
    let mut cand = best.clone();
    {
      let mut blocks = blocks_mut(&mut cand);
      if k >= blocks.len() || blocks[k].txs.is_empty() {
        continue;
      }
      blocks[k].txs.clear();
    }
    attempt!(cand);
  }

  // 6. drop trailing / leading blocks of Mine ops
  let mut i = 0;
  while i < best.ops.len() && runs < budget {
    if let Op::Mine(b) = &best.ops[i]
      && b.len() > 1
    {
      let mut cand = best.clone();
      if let Op::Mine(b) = &mut cand.ops[i] {
        b.pop();
      }
      if attempt!(cand) {
        continue;
      }
      let mut cand = best.clone();
      if let Op::Mine(b) = &mut cand.ops[i] {
        b.remove(0);
      }
      if attempt!(cand) {
        continue;
      }
    }
    i += 1;
  }

  // 7. single transactions, then parts of transactions
  let n = block_count(&best);
  for k in 0..n {
    let mut t = 0;
    loop {
      if runs >= budget {
        break;
      }
      let mut cand = best.clone();
      {
        let mut blocks = blocks_mut(&mut cand);
        if k >= blocks.len() || t >= blocks[k].txs.len() {
          break;
        }
        blocks[k].txs.remove(t);
      }
      if !attempt!(cand) {
        t += 1;
      }
    }
    // simplify the coinbase
    let mut cand = best.clone();
    {
      let mut blocks = blocks_mut(&mut cand);
      if k < blocks.len() {
        blocks[k].coinbase = CoinbaseSpec {
          outputs: vec![],
          claim: Claim::Full,
          duplicate_of: None,
        };
      }
    }
    attempt!(cand);
  }

  let n = block_count(&best);
  for k in 0..n {
    let txs = {
      let mut probe = best.clone();
      let blocks = blocks_mut(&mut probe);
      blocks.get(k).map(|b| b.txs.len()).unwrap_or(0)
    };
    for t in 0..txs {
      for step in 0..8 {
        if runs >= budget {
          break;
        }
        let mut cand = best.clone();
        {
          let mut blocks = blocks_mut(&mut cand);
          let tx = &mut blocks[k].txs[t];
          match step {
            0 => {
              tx.runestone = None;
            }
            1 => {
              tx.inputs.truncate(1);
            }
            2 => {
              tx.outputs.truncate(1);
            }
            3 => {
              for i in &mut tx.inputs {
                i.witness = WitnessSpec::None;
              }
            }
            4 => {
              tx.fee_exact = Some(0);
              tx.fee_permille = 0;
            }
            5 => {
              for i in &mut tx.inputs {
                if let WitnessSpec::Envelopes(e) = &mut i.witness {
                  e.truncate(1);
                }
              }
            }
            6 => {
              for i in &mut tx.inputs {
                if let WitnessSpec::Envelopes(e) = &mut i.witness {
                  for env in e.iter_mut() {
                    *env = EnvSpec {
                      pointer: env.pointer.clone(),
                      pointer_permille: env.pointer_permille,
                      pointer_input: env.pointer_input,
                      parents: env.parents.clone(),
                      unknown_tag: env.unknown_tag,
                      ..Default::default()
                    };
                  }
                }
              }
            }
            _ => {
              for o in &mut tx.outputs {
                o.exact = None;
                if o.weight > 0 {
                  o.weight = 1;
                }
              }
            }
          }
        }
        attempt!(cand);
      }
    }
  }

  Shrunk {
    scenario: best,
    runs,
  }
}
