//! Tier 3: real wallet commands, run in-process against the simulated node
//! (with adversarial coin selection) and the in-process explorer over loopback.
//!
//! C22 — rune sends, burns and splits move exactly the requested amounts.
//! C23 — node-funded transactions never spend inscribed or runic outputs.

use {
  crate::{
    check::{Ctx, RunReport, fault_free_update_ok, finish_report},
    exec::Exec,
    model::Model,
    oracle::{self, Violation, v},
    rng::Rng,
    scenario::*,
    wallet_node::wallet_script,
    web::{ServerOpts, Web},
    world::script_for,
  },
  bitcoin::{OutPoint, ScriptBuf, Transaction},
  ordinals::{Rune, RuneId, SpacedRune},
  std::collections::{BTreeMap, BTreeSet},
};

const WALLET: &str = "ord";

fn plain_coinbase(k: u16) -> CoinbaseSpec {
  CoinbaseSpec {
    outputs: vec![OutSpec {
      weight: 1,
      exact: None,
      script: ScriptSpec::Wallet(0, k),
    }],
    claim: Claim::Full,
    duplicate_of: None,
  }
}

fn block(txs: Vec<TxSpec>, k: u16) -> BlockSpec {
  BlockSpec {
    txs,
    coinbase: plain_coinbase(k),
    include_mempool: false,
    mempool_limit: None,
  }
}

fn wallet_out(k: u16, sats: u64) -> OutSpec {
  OutSpec {
    weight: 0,
    exact: Some(sats),
    script: ScriptSpec::Wallet(0, k),
  }
}

fn change_out(k: u16) -> OutSpec {
  OutSpec {
    weight: 1,
    exact: None,
    script: ScriptSpec::Wallet(0, k),
  }
}

pub fn fresh_rune(k: u32) -> Rune {
  Rune((1u128 << 90) + u128::from(k) * 7919)
}

fn gen_amount(rng: &mut Rng) -> AmountSel {
  match rng.below(12) {
    0 => AmountSel::Zero,
    1 => AmountSel::Full,
    2 => AmountSel::FullPlus(1 + rng.below(5) as u32),
    3 => AmountSel::Exact("1".into()),
    4..=5 => AmountSel::FirstHolder,
    _ => AmountSel::Permille(1 + rng.below(999) as u32),
  }
}

fn gen_accept(rng: &mut Rng) -> WalletCmd {
  use OfferFlaw::*;
  // most offers are valid or deviate in exactly one respect
  let n_flaws = *rng.pick(&[0usize, 0, 1, 1, 1, 1, 2]);
  let flaws = (0..n_flaws)
    .map(|_| match rng.below(12) {
      0 => ExtraWalletCardinal,
      1 => ExtraWalletInscribed,
      2 => SellerHoldsSeveral,
      3 => SellerHoldsRunes,
      4 => SellerCardinal,
      5 => NoWalletInput,
      6 => AmountOff(*rng.pick(&[1i64, -1, 546, -546, 10_000, -10_000])),
      7 => AmountOff(rng.below(100_000) as i64 - 50_000),
      8 => OtherInscription,
      9 => BuyerUnsigned(rng.below(3) as u8),
      10 => SellerPresigned,
      _ => PaymentElsewhere,
    })
    .collect();
  let sign_fault = if rng.chance(1, 3) {
    Some(*rng.pick(&[
      SignFault::AlterOnProcess,
      SignFault::AlterOnFinalize,
      SignFault::MoveToScriptSig,
      SignFault::ExtraInput,
      SignFault::DropInput,
    ]))
  } else {
    None
  };
  WalletCmd::Accept {
    seller: rng.below(16) as u32,
    buyers: (0..1 + rng.usize(3)).map(|_| rng.below(64) as u32).collect(),
    buyer_scriptsig: if rng.chance(1, 4) { Some(rng.below(3) as u8) } else { None },
    seller_pos: rng.below(4) as u8,
    price: *rng.pick(&[0u64, 1, 546, 10_000, 15_000, 90_000, 900_000]),
    flaws,
    sign_fault,
    dry_run: rng.chance(1, 10),
    extra_signed: rng.chance(1, 2),
  }
}

pub fn gen_wallet(property: &str, seed: u64, thorough: bool) -> Scenario {
  let root = Rng::new(seed);
  let mut crng = root.fork("config");
  let mut wrng = root.fork("workload");
  let config = Config {
    chain: ChainKind::Regtest,
    index_sats: crng.chance(1, 2),
    index_addresses: crng.chance(1, 2),
    index_transactions: crng.chance(1, 3),
    index_runes: true,
    no_index_inscriptions: false,
    commit_interval: 5000,
    savepoint_interval: 10,
    max_savepoints: 2,
    index_cache_size: 1 << 24,
    bitcoin_rpc_limit: 12,
    integration_test: false,
    events: false,
    first_inscription_height: None,
  };
  let mut next_script = 0u16;
  let mut script = || {
    next_script += 1;
    next_script % 60
  };
  let mut ops = Vec::new();
  // cardinals: coinbases paying the wallet
  let n0 = 9 + wrng.usize(4);
  ops.push(Op::Mine((0..n0).map(|_| block(vec![], script())).collect()));

  // inscriptions on wallet outputs
  let n_insc = match property {
    "C24" => 4 + wrng.usize(3),
    "C21" => 2 + wrng.usize(3),
    _ => 1 + wrng.usize(3),
  };
  let mut txs = Vec::new();
  for _ in 0..n_insc {
    txs.push(TxSpec {
      inputs: vec![InSpec {
        sel: InputSel::Utxo(wrng.below(1 << 16) as u32),
        witness: WitnessSpec::Envelopes(vec![EnvSpec {
          content_type: Some(b"text/plain".to_vec()),
          body: Some(wrng.bytes(20)),
          ..Default::default()
        }]),
      }],
      outputs: vec![wallet_out(script(), 10_000), change_out(script())],
      fee_permille: 0,
      fee_exact: Some(1000),
      runestone: None,
      runestone_at: 0,
      runestone_value: 0,
    });
  }
  ops.push(Op::Mine(vec![block(txs, script())]));

  // etchings with premine spread over several wallet outputs
  let n_runes = if property == "C22" { 2 + wrng.usize(2) } else { 1 + wrng.usize(3) };
  let mut txs = Vec::new();
  for r in 0..n_runes {
    let n_out = 2 + wrng.usize(3);
    let divisibility = *wrng.pick(&[0u8, 0, 1, 2, 8]);
    let premine = 1000 + wrng.below(1_000_000);
    let mut edicts = Vec::new();
    // spread a part of the premine over the outputs (output 0 is the runestone)
    for o in 1..n_out {
      edicts.push(EdictSpec {
        id: RuneIdRef::Zero,
        amount: (premine / (n_out as u64 + 1)).to_string(),
        output: Some(1 + o as u32),
      });
    }
    txs.push(TxSpec {
      inputs: vec![InSpec {
        sel: InputSel::Taproot {
          sel: wrng.below(1 << 16) as u32,
          min_conf: 6,
        },
        witness: WitnessSpec::Commit(Vec::new()),
      }],
      outputs: {
        let mut outs: Vec<OutSpec> = Vec::new();
        for _ in 0..n_out {
          outs.push(wallet_out(script(), 10_000));
        }
        outs.push(change_out(script()));
        outs
      },
      fee_permille: 0,
      fee_exact: Some(2000),
      runestone: Some(RunestoneSpec::Structured {
        edicts,
        etching: Some(EtchingSpec {
          name: RuneName::Fresh(r as u32 + 1),
          divisibility: Some(divisibility),
          premine: Some(premine.to_string()),
          spacers: if wrng.chance(1, 2) { Some(1 + wrng.below(6) as u32) } else { None },
          symbol: Some('R'),
          terms: if wrng.chance(1, 2) {
            Some(TermsSpec {
              amount: Some((10 + wrng.below(90)).to_string()),
              cap: Some("100".into()),
              ..Default::default()
            })
          } else {
            None
          },
          turbo: false,
        }),
        mint: None,
        pointer: Some(1),
      }),
      runestone_at: 0,
      runestone_value: 0,
    });
  }
  ops.push(Op::Mine(vec![block(txs, script())]));

  // mix: outputs holding several runes, a runic output that is also inscribed
  let mut txs = Vec::new();
  if n_runes > 1 && wrng.chance(2, 3) {
    txs.push(TxSpec {
      inputs: vec![
        InSpec {
          sel: InputSel::Runic(0),
          witness: WitnessSpec::None,
        },
        InSpec {
          sel: InputSel::Runic(1 + wrng.below(4) as u32),
          witness: WitnessSpec::None,
        },
      ],
      outputs: vec![wallet_out(script(), 10_000), change_out(script())],
      fee_permille: 0,
      fee_exact: Some(500),
      runestone: None,
      runestone_at: 0,
      runestone_value: 0,
    });
  }
  if wrng.chance(1, 2) {
    // an inscription that is not on the first sat of its output: cardinal
    // sats in front of it
    txs.push(TxSpec {
      inputs: vec![
        InSpec {
          sel: InputSel::Utxo(wrng.below(1 << 16) as u32),
          witness: WitnessSpec::None,
        },
        InSpec {
          sel: InputSel::Inscribed(wrng.below(8) as u32),
          witness: WitnessSpec::None,
        },
      ],
      outputs: vec![change_out(script())],
      fee_permille: 0,
      fee_exact: Some(0),
      runestone: None,
      runestone_at: 0,
      runestone_value: 0,
    });
  }
  if property == "C21" && wrng.chance(1, 2) {
    // an output holding inscriptions on two different sats
    txs.push(TxSpec {
      inputs: vec![
        InSpec {
          sel: InputSel::Inscribed(0),
          witness: WitnessSpec::None,
        },
        InSpec {
          sel: InputSel::Inscribed(1),
          witness: WitnessSpec::None,
        },
      ],
      outputs: vec![wallet_out(script(), 20_000), change_out(script())],
      fee_permille: 0,
      fee_exact: Some(600),
      runestone: None,
      runestone_at: 0,
      runestone_value: 0,
    });
  }
  if n_runes > 1 && property == "C22" && wrng.chance(2, 3) {
    // a second output holding several runes
    txs.push(TxSpec {
      inputs: vec![
        InSpec {
          sel: InputSel::Runic(1),
          witness: WitnessSpec::None,
        },
        InSpec {
          sel: InputSel::Runic(2 + wrng.below(6) as u32),
          witness: WitnessSpec::None,
        },
      ],
      outputs: vec![wallet_out(script(), 10_000), change_out(script())],
      fee_permille: 0,
      fee_exact: Some(500),
      runestone: None,
      runestone_at: 0,
      runestone_value: 0,
    });
  }
  ops.push(Op::Mine(vec![block(txs, script()), block(vec![], script())]));
  if property == "C24" {
    // offers: an output holding two inscriptions, an inscribed output that
    // also holds runes, and outputs of a counterparty
    let mut txs = Vec::new();
    let plain = |sel: InputSel| InSpec {
      sel,
      witness: WitnessSpec::None,
    };
    let simple = |inputs: Vec<InSpec>, outputs: Vec<OutSpec>| TxSpec {
      inputs,
      outputs,
      fee_permille: 0,
      fee_exact: Some(700),
      runestone: None,
      runestone_at: 0,
      runestone_value: 0,
    };
    if wrng.chance(3, 4) {
      txs.push(simple(
        vec![plain(InputSel::Inscribed(0)), plain(InputSel::Inscribed(1))],
        vec![wallet_out(script(), 20_000), change_out(script())],
      ));
    }
    if wrng.chance(3, 4) {
      txs.push(simple(
        vec![plain(InputSel::Inscribed(2)), plain(InputSel::Runic(wrng.below(4) as u32))],
        vec![wallet_out(script(), 10_000), change_out(script())],
      ));
    }
    let n_foreign = 3 + wrng.usize(4);
    let mut outs: Vec<OutSpec> = (0..n_foreign)
      .map(|i| OutSpec {
        weight: 0,
        exact: Some(*wrng.pick(&[20_000u64, 100_000, 1_000_000, 50_000_000])),
        script: ScriptSpec::P2tr(600 + i as u16),
      })
      .collect();
    outs.push(change_out(script()));
    txs.push(simple(vec![plain(InputSel::Utxo(wrng.below(1 << 16) as u32))], outs));
    ops.push(Op::Mine(vec![block(txs, script())]));
  }
  ops.push(Op::Update(UpdateSpec {
    lag: 31,
    ..Default::default()
  }));

  if wrng.chance(1, 3) {
    ops.push(Op::WalletLock(wrng.below(64) as u32));
  }

  let n_cmds = 2 + wrng.usize(if thorough { 8 } else { 4 });
  for _ in 0..n_cmds {
    let fee_rate = 1 + wrng.below(20) as u32;
    let rune = wrng.below(4) as u32;
    let cmd = match (property, wrng.below(10)) {
      ("C24", _) => gen_accept(&mut wrng),
      ("C21", _) => WalletCmd::Batch {
        etching: if wrng.chance(1, 3) {
          let premine = *wrng.pick(&[0u64, 1, 1000, 1_000_000, 21_000_000]);
          Some(BatchEtching {
            name: wrng.below(1000) as u32,
            spacers: wrng.below(8) as u32,
            divisibility: *wrng.pick(&[0u8, 0, 2, 8]),
            premine,
            terms: if premine == 0 || wrng.chance(1, 2) {
              Some((1 + wrng.below(1000), 1 + wrng.below(100)))
            } else {
              None
            },
            turbo: wrng.chance(1, 4),
            mine_every: 1 + wrng.below(3) as u32,
          })
        } else {
          None
        },
        target: match wrng.below(6) {
          0 => Some(BatchTarget::Sat(wrng.below(16) as u32)),
          1 => Some(BatchTarget::Satpoint(wrng.below(16) as u32)),
          2 => Some(BatchTarget::Reinscribe(wrng.below(16) as u32)),
          _ => None,
        },
        mode: wrng.below(4) as u8,
        count: 1 + wrng.below(4) as u8,
        parents: (0..wrng.below(3)).map(|_| wrng.below(16) as u32).collect(),
        postage: if wrng.chance(1, 3) { Some(546 + wrng.below(30_000)) } else { None },
        foreign_destinations: wrng.chance(1, 3),
        delegate: if wrng.chance(1, 5) { Some(wrng.below(16) as u32) } else { None },
        metadata: wrng.chance(1, 3),
        fee_rate,
      },
      ("C22", 0..=4) | (_, 0..=1) => WalletCmd::SendRune {
        rune,
        amount: gen_amount(&mut wrng),
        to: wrng.below(12) as u16,
        fee_rate,
        postage: if wrng.chance(1, 4) { Some(546 + wrng.below(20_000)) } else { None },
      },
      ("C22", 5..=6) | (_, 2) => WalletCmd::BurnRune {
        rune,
        amount: gen_amount(&mut wrng),
        fee_rate,
      },
      ("C22", 7..=8) | (_, 3..=4) => WalletCmd::Split {
        outputs: (0..1 + wrng.usize(3))
          .map(|_| SplitOut {
            to: wrng.below(12) as u16,
            value: if wrng.chance(1, 3) { Some(600 + wrng.below(5000)) } else { None },
            runes: (0..1 + wrng.usize(2))
              .map(|_| (wrng.below(4) as u32, gen_amount(&mut wrng)))
              .collect(),
          })
          .collect(),
        fee_rate,
      },
      (_, 5..=6) => WalletCmd::Mint { rune, fee_rate },
      _ => WalletCmd::SendBtc {
        sats: *wrng.pick(&[1000u64, 50_000, 1_000_000, 4_900_000_000, 20_000_000_000]),
        to: wrng.below(12) as u16,
        fee_rate,
      },
    };
    ops.push(Op::Wallet(cmd));
    // confirm before the next command (C22 settles every command on its own;
    // C23 sometimes leaves transactions unconfirmed so that the next command
    // runs against unconfirmed change)
    if property == "C21" && wrng.chance(1, 3) {
      // commit and reveal in consecutive blocks
      ops.push(Op::Mine(vec![BlockSpec {
        txs: vec![],
        coinbase: plain_coinbase(script()),
        include_mempool: true,
        mempool_limit: Some(1),
      }]));
    }
    if property == "C22" || property == "C21" || wrng.chance(4, 5) {
      ops.push(Op::Mine(vec![BlockSpec {
        txs: vec![],
        coinbase: plain_coinbase(script()),
        include_mempool: true,
        mempool_limit: None,
      }]));
      ops.push(Op::Update(UpdateSpec {
        lag: 31,
        ..Default::default()
      }));
    }
  }
  Scenario {
    seed,
    profile: format!("{property}/wallet"),
    config,
    ops,
    server: None,
  }
}

fn recipient(to: u16, network: bitcoin::Network) -> (String, ScriptBuf) {
  let script = script_for(&ScriptSpec::P2tr(500 + to));
  (
    bitcoin::Address::from_script(&script, network).unwrap().to_string(),
    script,
  )
}

struct WalletView {
  /// rune -> total on wallet-owned unspent outputs
  balances: BTreeMap<RuneId, u128>,
  /// rune -> what the first uninscribed wallet output holding it holds
  first_holder: BTreeMap<RuneId, u128>,
  owned: BTreeSet<ScriptBuf>,
}

fn wallet_view(ex: &Exec, m: &Model) -> WalletView {
  let owned: BTreeSet<ScriptBuf> = ex.sim.snapshot(|s| {
    s.world
      .wallet_side
      .wallets
      .get(WALLET)
      .map(|w| w.scripts.clone())
      .unwrap_or_default()
  });
  let mut balances: BTreeMap<RuneId, u128> = BTreeMap::new();
  let mut first_holder: BTreeMap<RuneId, u128> = BTreeMap::new();
  for (o, b) in &m.runes.balances {
    if m.utxos.get(o).is_some_and(|u| owned.contains(&u.script)) {
      let inscribed = !inscriptions_on(m, o).is_empty();
      for (id, a) in b {
        *balances.entry(*id).or_default() += a;
        if !inscribed && *a > 0 {
          first_holder.entry(*id).or_insert(*a);
        }
      }
    }
  }
  WalletView {
    balances,
    first_holder,
    owned,
  }
}

fn decimal(amount: u128, divisibility: u8) -> String {
  if divisibility == 0 {
    return amount.to_string();
  }
  let scale = 10u128.pow(divisibility.into());
  let frac = format!("{:0width$}", amount % scale, width = divisibility as usize);
  let frac = frac.trim_end_matches('0');
  if frac.is_empty() {
    (amount / scale).to_string()
  } else {
    format!("{}.{}", amount / scale, frac)
  }
}

fn resolve_amount(sel: &AmountSel, balance: u128, first_holder: u128) -> u128 {
  match sel {
    AmountSel::FirstHolder => first_holder.max(1),
    AmountSel::Exact(s) => s.parse().unwrap_or(1),
    AmountSel::Permille(p) => (balance / 1000 * u128::from(*p)).max(1).min(balance.max(1)),
    AmountSel::Zero => 0,
    AmountSel::Full => balance,
    AmountSel::FullPlus(n) => balance + u128::from(*n),
  }
}

#[derive(Debug, Clone)]
enum Expect {
  /// (rune, amount) per recipient script; burn amount per rune
  Move {
    to: Vec<(ScriptBuf, RuneId, u128)>,
    burn: Vec<(RuneId, u128)>,
    subject_runes: BTreeSet<RuneId>,
    zero_requested: bool,
  },
  Cardinal,
  Mint(RuneId),
  Batch {
    parents: Vec<ord::InscriptionId>,
    count: usize,
    etching: Option<EtchWant>,
    /// every inscription of the batch must end up on this sat
    target_sat: Option<u64>,
    /// `reinscribe`: the inscribed output the batch is about
    subject: Option<OutPoint>,
  },
  Accept(Box<Offer>),
}

#[derive(Debug, Clone)]
struct EtchWant {
  rune: SpacedRune,
  divisibility: u8,
  premine: u128,
  terms: Option<(u128, u128)>,
  mine_every: u32,
}

/// What was presented to `wallet offer accept`.
#[derive(Debug, Clone)]
struct Offer {
  psbt: bitcoin::Psbt,
  inscription: ord::InscriptionId,
  amount: u64,
  dry_run: bool,
  sign_fault: Option<SignFault>,
}

/// Inscriptions on an output, by the reference model.
fn inscriptions_on(m: &Model, o: &OutPoint) -> Vec<ord::InscriptionId> {
  let Some(u) = m.utxos.get(o) else {
    return Vec::new();
  };
  m.inscr
    .list
    .iter()
    .filter(|i| i.sat.is_some_and(|s| crate::model::offset_of(&u.ranges, s).is_some()))
    .map(|i| i.id)
    .collect()
}

fn foreign_signature(o: &OutPoint) -> bitcoin::Witness {
  let mut w = bitcoin::Witness::new();
  let mut sig = vec![0x42u8; 32];
  sig.extend_from_slice(&bitcoin::hashes::Hash::to_byte_array(o.txid));
  w.push(sig);
  w
}

struct Resolved {
  argv: Vec<String>,
  expect: Expect,
  describe: String,
}

fn resolve(cmd: &WalletCmd, ex: &Exec, m: &Model, wv: &WalletView) -> Option<Resolved> {
  let network = m.params.network;
  let known = m.runes.known_ids();
  let rune_of = |k: u32| -> Option<(RuneId, SpacedRune, u8)> {
    if known.is_empty() {
      return None;
    }
    let id = known[k as usize % known.len()];
    let info = &m.runes.runes[&id];
    Some((
      id,
      SpacedRune {
        rune: info.rune,
        spacers: info.spacers,
      },
      info.divisibility,
    ))
  };
  match cmd {
    WalletCmd::SendBtc { sats, to, fee_rate } => {
      let (address, _) = recipient(*to, network);
      Some(Resolved {
        argv: vec![
          "send".into(),
          "--fee-rate".into(),
          fee_rate.to_string(),
          address,
          format!("{sats}sat"),
        ],
        expect: Expect::Cardinal,
        describe: format!("send {sats} sat"),
      })
    }
    WalletCmd::SendRune {
      rune,
      amount,
      to,
      fee_rate,
      postage,
    } => {
      let (id, spaced, div) = rune_of(*rune)?;
      let balance = wv.balances.get(&id).copied().unwrap_or(0);
      let a = resolve_amount(amount, balance, wv.first_holder.get(&id).copied().unwrap_or(1));
      let (address, script) = recipient(*to, network);
      let mut argv = vec!["send".to_string(), "--fee-rate".into(), fee_rate.to_string()];
      if let Some(p) = postage {
        argv.push("--postage".into());
        argv.push(format!("{p}sat"));
      }
      argv.push(address);
      argv.push(format!("{}:{}", decimal(a, div), spaced));
      Some(Resolved {
        argv,
        expect: Expect::Move {
          to: vec![(script, id, a)],
          burn: vec![],
          subject_runes: [id].into(),
          zero_requested: a == 0,
        },
        describe: format!("send {a} of {spaced} (wallet has {balance})"),
      })
    }
    WalletCmd::BurnRune { rune, amount, fee_rate } => {
      let (id, spaced, div) = rune_of(*rune)?;
      let balance = wv.balances.get(&id).copied().unwrap_or(0);
      let a = resolve_amount(amount, balance, wv.first_holder.get(&id).copied().unwrap_or(1));
      Some(Resolved {
        argv: vec![
          "burn".into(),
          "--fee-rate".into(),
          fee_rate.to_string(),
          format!("{}:{}", decimal(a, div), spaced),
        ],
        expect: Expect::Move {
          to: vec![],
          burn: vec![(id, a)],
          subject_runes: [id].into(),
          zero_requested: a == 0,
        },
        describe: format!("burn {a} of {spaced} (wallet has {balance})"),
      })
    }
    WalletCmd::Mint { rune, fee_rate } => {
      let (id, spaced, _) = rune_of(*rune)?;
      Some(Resolved {
        argv: vec![
          "mint".into(),
          "--fee-rate".into(),
          fee_rate.to_string(),
          "--rune".into(),
          spaced.to_string(),
        ],
        expect: Expect::Mint(id),
        describe: format!("mint {spaced}"),
      })
    }
    WalletCmd::Accept {
      seller,
      buyers,
      buyer_scriptsig,
      seller_pos,
      price,
      flaws,
      sign_fault,
      dry_run,
      extra_signed,
    } => {
      use OfferFlaw::*;
      let has = |f: &OfferFlaw| flaws.iter().any(|x| std::mem::discriminant(x) == std::mem::discriminant(f));
      let view = ex.sim.snapshot(|s| s.world.spendable_view());
      // wallet outputs by what they hold
      let mut single = Vec::new();
      let mut several = Vec::new();
      let mut runic_inscribed = Vec::new();
      let mut cardinal = Vec::new();
      let mut foreign = Vec::new();
      for (o, (txout, height)) in &view {
        if height.is_none() {
          continue;
        }
        if !wv.owned.contains(&txout.script_pubkey) {
          if txout.value.to_sat() >= 10_000 {
            foreign.push(*o);
          }
          continue;
        }
        let ids = inscriptions_on(m, o);
        let runes = holdings(m, o).0;
        match (ids.len(), runes.is_empty()) {
          (0, true) => cardinal.push(*o),
          (0, false) => {}
          (_, false) => runic_inscribed.push(*o),
          (1, true) => single.push(*o),
          (_, true) => several.push(*o),
        }
      }
      let pick = |list: &Vec<OutPoint>, k: u32| -> Option<OutPoint> {
        if list.is_empty() { None } else { Some(list[k as usize % list.len()]) }
      };
      let seller_out = if has(&NoWalletInput) {
        None
      } else if has(&SellerHoldsSeveral) && !several.is_empty() {
        pick(&several, *seller)
      } else if has(&SellerHoldsRunes) && !runic_inscribed.is_empty() {
        pick(&runic_inscribed, *seller)
      } else if has(&SellerCardinal) && !cardinal.is_empty() {
        pick(&cardinal, *seller)
      } else {
        Some(pick(&single, *seller)?)
      };
      // the inscription named on the command line
      let on_seller = seller_out.map(|o| inscriptions_on(m, &o)).unwrap_or_default();
      let held: Vec<ord::InscriptionId> = single
        .iter()
        .chain(&several)
        .chain(&runic_inscribed)
        .flat_map(|o| inscriptions_on(m, o))
        .collect();
      let mut named = on_seller
        .get(*seller as usize % on_seller.len().max(1))
        .copied()
        .or_else(|| held.first().copied())?;
      if has(&OtherInscription)
        && let Some(other) = held.iter().find(|i| !on_seller.contains(i))
      {
        named = *other;
      }
      // inputs
      if foreign.is_empty() {
        return None;
      }
      let mut buyer_outs: Vec<OutPoint> = Vec::new();
      for k in buyers {
        let o = foreign[*k as usize % foreign.len()];
        if !buyer_outs.contains(&o) {
          buyer_outs.push(o);
        }
      }
      let mut inputs: Vec<OutPoint> = buyer_outs.clone();
      if let Some(s) = seller_out {
        inputs.insert(*seller_pos as usize % (inputs.len() + 1), s);
      }
      if has(&ExtraWalletCardinal)
        && let Some(o) = pick(&cardinal, seller + 1)
        && !inputs.contains(&o)
      {
        inputs.push(o);
      }
      if has(&ExtraWalletInscribed)
        && let Some(o) = single.iter().chain(&several).find(|o| !inputs.contains(o))
      {
        if seller_pos % 2 == 0 {
          inputs.insert(0, *o);
        } else {
          inputs.push(*o);
        }
      }
      let value = |o: &OutPoint| view[o].0.value.to_sat();
      let buyer_total: u64 = buyer_outs.iter().map(value).sum();
      let wallet_in: u64 = inputs.iter().filter(|o| wv.owned.contains(&view[o].0.script_pubkey)).map(value).sum();
      let price = (*price).min(buyer_total.saturating_sub(2_000));
      let seller_value = seller_out.as_ref().map(value).unwrap_or(0);
      let buyer_script = script_for(&ScriptSpec::P2tr(700));
      let pay_script = if has(&PaymentElsewhere) {
        script_for(&ScriptSpec::P2tr(701))
      } else {
        crate::wallet_node::wallet_script(WALLET, 40 + (*seller % 20))
      };
      let payment = seller_value + price;
      let total_in: u64 = inputs.iter().map(value).sum();
      let mut output = vec![
        bitcoin::TxOut {
          value: bitcoin::Amount::from_sat(seller_value.max(546)),
          script_pubkey: buyer_script.clone(),
        },
        bitcoin::TxOut {
          value: bitcoin::Amount::from_sat(payment),
          script_pubkey: pay_script.clone(),
        },
      ];
      let spent: u64 = output.iter().map(|o| o.value.to_sat()).sum();
      if total_in > spent + 1_500 {
        output.push(bitcoin::TxOut {
          value: bitcoin::Amount::from_sat(total_in - spent - 1_000),
          script_pubkey: buyer_script,
        });
      } else if total_in < spent {
        return None;
      }
      let wallet_out_total: u64 = output
        .iter()
        .filter(|o| wv.owned.contains(&o.script_pubkey))
        .map(|o| o.value.to_sat())
        .sum();
      let true_change = wallet_out_total as i64 - wallet_in as i64;
      let mut claim = true_change;
      for f in flaws {
        if let AmountOff(d) = f {
          claim += d;
        }
      }
      let claim = claim.unsigned_abs();
      let tx = Transaction {
        version: bitcoin::transaction::Version(2),
        lock_time: bitcoin::absolute::LockTime::ZERO,
        input: inputs
          .iter()
          .map(|o| bitcoin::TxIn {
            previous_output: *o,
            script_sig: ScriptBuf::new(),
            sequence: bitcoin::Sequence::ENABLE_RBF_NO_LOCKTIME,
            witness: bitcoin::Witness::new(),
          })
          .collect(),
        output,
      };
      let mut psbt = bitcoin::Psbt::from_unsigned_tx(tx).ok()?;
      let unsigned_buyer = flaws.iter().find_map(|f| if let BuyerUnsigned(k) = f { Some(*k) } else { None });
      let mut buyer_n = 0u8;
      for (n, o) in inputs.iter().enumerate() {
        psbt.inputs[n].witness_utxo = Some(view[o].0.clone());
        let ours = wv.owned.contains(&view[o].0.script_pubkey);
        if ours {
          if (has(&SellerPresigned) && Some(*o) == seller_out) || (*extra_signed && Some(*o) != seller_out) {
            psbt.inputs[n].final_script_witness = Some(foreign_signature(o));
          }
          continue;
        }
        if unsigned_buyer.map(|k| k % buyer_outs.len().max(1) as u8) == Some(buyer_n) {
          buyer_n += 1;
          continue;
        }
        if buyer_scriptsig.map(|k| k % buyer_outs.len().max(1) as u8) == Some(buyer_n) {
          let mut b = bitcoin::script::PushBytesBuf::new();
          let _ = b.extend_from_slice(&foreign_signature(o).to_vec()[0]);
          psbt.inputs[n].final_script_sig = Some(bitcoin::script::Builder::new().push_slice(b).into_script());
        } else {
          psbt.inputs[n].final_script_witness = Some(foreign_signature(o));
        }
        buyer_n += 1;
      }
      let mut argv = vec![
        "offer".to_string(),
        "accept".into(),
        "--amount".into(),
        format!("{claim} sat"),
        "--inscription".into(),
        named.to_string(),
        "--psbt".into(),
        ord::base64_encode(&psbt.serialize()),
      ];
      if *dry_run {
        argv.push("--dry-run".into());
      }
      Some(Resolved {
        argv,
        describe: format!(
          "accept offer for {named} at {claim} sat (flaws {flaws:?}, signing fault {sign_fault:?}, {} inputs)",
          inputs.len()
        ),
        expect: Expect::Accept(Box::new(Offer {
          psbt,
          inscription: named,
          amount: claim,
          dry_run: *dry_run,
          sign_fault: *sign_fault,
        })),
      })
    }
    WalletCmd::Batch {
      etching,
      target,
      mode,
      count,
      parents,
      postage,
      foreign_destinations,
      delegate,
      metadata,
      fee_rate,
    } => {
      let dir = ex.scratch_dir().join("batch");
      std::fs::create_dir_all(&dir).ok()?;
      // inscriptions the wallet holds, in creation order
      let held: Vec<ord::InscriptionId> = m
        .inscr
        .list
        .iter()
        .filter(|i| {
          i.sat
            .and_then(|s| m.locate(s))
            .and_then(|(o, _)| m.utxos.get(&o))
            .is_some_and(|u| wv.owned.contains(&u.script))
        })
        .map(|i| i.id)
        .collect();
      let mut parent_ids: Vec<ord::InscriptionId> = Vec::new();
      if !held.is_empty() {
        for k in parents {
          let id = held[*k as usize % held.len()];
          if !parent_ids.contains(&id) {
            parent_ids.push(id);
          }
        }
      }
      let mode_name = match mode % 4 {
        0 => "separate-outputs",
        1 => "shared-output",
        2 => "same-sat",
        _ => "satpoints",
      };
      // confirmed wallet outputs that hold nothing, and inscribed ones
      let view = ex.sim.snapshot(|s| s.world.spendable_view());
      let mut cardinals: Vec<OutPoint> = Vec::new();
      let mut inscribed: Vec<(OutPoint, u64, u64)> = Vec::new();
      for (o, (txout, height)) in &view {
        if height.is_none() || !wv.owned.contains(&txout.script_pubkey) {
          continue;
        }
        let Some(u) = m.utxos.get(o) else {
          continue;
        };
        if !holdings(m, o).0.is_empty() {
          continue;
        }
        let ids = inscriptions_on(m, o);
        if ids.is_empty() {
          cardinals.push(*o);
        }
        // every inscribed sat of the output is a possible reinscription target
        for id in &ids {
          if let Some(sat) = m.inscr.list.iter().find(|i| i.id == *id).and_then(|i| i.sat)
            && let Some(offset) = crate::model::offset_of(&u.ranges, sat)
            && !inscribed.contains(&(*o, offset, sat))
          {
            inscribed.push((*o, offset, sat));
          }
        }
      }
      let mut yaml = format!("mode: {mode_name}\n");
      let mut target_sat = None;
      let mut subject = None;
      if mode % 4 == 2
        && let Some(t) = target
      {
        match t {
          BatchTarget::Sat(k) if !cardinals.is_empty() => {
            let o = cardinals[*k as usize % cardinals.len()];
            let sat = crate::model::sat_at(&m.utxos[&o].ranges, 0)?;
            yaml += &format!("sat: {sat}\n");
            target_sat = Some(sat);
          }
          BatchTarget::Satpoint(k) if !cardinals.is_empty() => {
            let o = cardinals[*k as usize % cardinals.len()];
            yaml += &format!("satpoint: {o}:0\n");
            target_sat = crate::model::sat_at(&m.utxos[&o].ranges, 0);
          }
          BatchTarget::Reinscribe(k) if !inscribed.is_empty() => {
            let (o, offset, sat) = inscribed[*k as usize % inscribed.len()];
            yaml += &format!("reinscribe: true\nsatpoint: {o}:{offset}\n");
            target_sat = Some(sat);
            subject = Some(o);
          }
          _ => {}
        }
      }
      let postage = if mode % 4 == 3 { &None } else { postage };
      if !parent_ids.is_empty() {
        yaml += "parents:\n";
        for p in &parent_ids {
          yaml += &format!("- {p}\n");
        }
      }
      if let Some(p) = postage {
        yaml += &format!("postage: {p}\n");
      }
      yaml += "inscriptions:\n";
      let known = m.inscr.known_ids();
      let mut n = (*count).clamp(1, 6) as usize;
      if mode % 4 == 3 {
        n = n.min(cardinals.len());
        if n == 0 {
          return None;
        }
      }
      for i in 0..n {
        let path = dir.join(format!("file{i}.txt"));
        std::fs::write(&path, format!("inscription {i} of a batch, seed {}", ex.seed)).ok()?;
        yaml += &format!("- file: {}\n", path.display());
        if let Some(d) = delegate
          && !known.is_empty()
          && i == 0
        {
          yaml += &format!("  delegate: {}\n", known[*d as usize % known.len()]);
        }
        if *foreign_destinations && mode % 3 == 0 {
          yaml += &format!("  destination: {}\n", recipient(20 + i as u16, network).0);
        }
        if *metadata {
          yaml += &format!("  metadata:\n    title: item {i}\n");
        }
        if mode % 4 == 3 {
          yaml += &format!("  satpoint: {}:0\n", cardinals[(i + *count as usize) % cardinals.len()]);
        }
      }
      let mut want = None;
      if let Some(e) = etching {
        let spaced = SpacedRune {
          rune: fresh_rune(100 + e.name),
          spacers: e.spacers & ((1 << (fresh_rune(100 + e.name).to_string().len() - 1)) - 1),
        };
        let premine = u128::from(e.premine);
        let terms = e.terms.map(|(a, c)| (u128::from(a), u128::from(c)));
        let supply = premine + terms.map(|(a, c)| a * c).unwrap_or(0);
        yaml += "etching:\n";
        yaml += &format!("  rune: {spaced}\n  divisibility: {}\n  symbol: '$'\n", e.divisibility);
        yaml += &format!("  premine: {}\n  supply: {}\n", decimal(premine, e.divisibility), decimal(supply, e.divisibility));
        yaml += &format!("  turbo: {}\n", e.turbo);
        if let Some((a, c)) = terms {
          yaml += &format!("  terms:\n    amount: {}\n    cap: {c}\n", decimal(a, e.divisibility));
        }
        want = Some(EtchWant {
          rune: spaced,
          divisibility: e.divisibility,
          premine,
          terms,
          mine_every: e.mine_every,
        });
      }
      let path = dir.join("batch.yaml");
      std::fs::write(&path, yaml).ok()?;
      Some(Resolved {
        argv: vec![
          "batch".into(),
          "--fee-rate".into(),
          fee_rate.to_string(),
          "--batch".into(),
          path.display().to_string(),
        ],
        expect: Expect::Batch {
          parents: parent_ids.clone(),
          count: n,
          etching: want.clone(),
          target_sat,
          subject,
        },
        describe: format!(
          "batch {mode_name} x{n} parents {parent_ids:?} target sat {target_sat:?} etching {:?}",
          want.as_ref().map(|w| w.rune.to_string())
        ),
      })
    }
    WalletCmd::Split { outputs, fee_rate } => {
      let mut yaml = String::from("outputs:\n");
      let mut to = Vec::new();
      let mut subject = BTreeSet::new();
      let mut zero = false;
      let mut requested: BTreeMap<RuneId, u128> = BTreeMap::new();
      for o in outputs {
        let (address, script) = recipient(o.to, network);
        yaml += &format!("- address: {address}\n");
        if let Some(val) = o.value {
          yaml += &format!("  value: {val} sat\n");
        }
        let mut runes: BTreeMap<RuneId, (SpacedRune, u8, u128)> = BTreeMap::new();
        for (k, sel) in &o.runes {
          let (id, spaced, div) = rune_of(*k)?;
          let balance = wv.balances.get(&id).copied().unwrap_or(0);
          // keep the total request within the balance most of the time
          let a = resolve_amount(sel, balance / 4, wv.first_holder.get(&id).copied().unwrap_or(1));
          runes.insert(id, (spaced, div, a));
        }
        if !runes.is_empty() {
          yaml += "  runes:\n";
        }
        for (id, (spaced, div, a)) in runes {
          yaml += &format!("    {}: {}\n", spaced, decimal(a, div));
          to.push((script.clone(), id, a));
          subject.insert(id);
          zero |= a == 0;
          *requested.entry(id).or_default() += a;
        }
      }
      let path = ex.scratch_dir().join("splits.yaml");
      std::fs::create_dir_all(ex.scratch_dir()).ok();
      std::fs::write(&path, yaml).ok()?;
      Some(Resolved {
        argv: vec![
          "split".into(),
          "--fee-rate".into(),
          fee_rate.to_string(),
          "--splits".into(),
          path.display().to_string(),
        ],
        expect: Expect::Move {
          to,
          burn: vec![],
          subject_runes: subject,
          zero_requested: zero,
        },
        describe: format!("split {requested:?}"),
      })
    }
  }
}

/// C21: what `wallet batch` reported is what the indexer assigns once commit
/// and reveal are mined.
fn settle_batch(
  ex: &Exec,
  after: &Model,
  p: &Pending,
  parents: &[ord::InscriptionId],
  count: usize,
  subject: Option<OutPoint>,
  target_sat: Option<u64>,
  out: &mut Vec<Violation>,
) {
  let Ok(j) = serde_json::from_str::<serde_json::Value>(&p.stdout) else {
    out.push(v("C21", "unreadable_output", format!("{}: {}", p.describe, p.stdout.chars().take(200).collect::<String>())));
    return;
  };
  let index = ex.index();
  let reveal: Option<bitcoin::Txid> = j["reveal"].as_str().and_then(|s| s.parse().ok());
  let commit: Option<bitcoin::Txid> = j["commit"].as_str().and_then(|s| s.parse().ok());
  let reported = j["inscriptions"].as_array().cloned().unwrap_or_default();
  if reported.len() != count {
    out.push(v("C21", "reported_count", format!("{}: {} inscriptions reported, {count} requested", p.describe, reported.len())));
  }
  let owned: BTreeSet<ScriptBuf> = ex.sim.snapshot(|s| s.world.wallet_side.wallets[WALLET].scripts.clone());
  let mut reported_ids = BTreeSet::new();
  for r in &reported {
    let Some(id) = r["id"].as_str().and_then(|s| s.parse::<ord::InscriptionId>().ok()) else {
      continue;
    };
    reported_ids.insert(id);
    let want = r["location"].as_str().unwrap_or("").to_string();
    match index.get_inscription_satpoint_by_id(id) {
      Ok(Some(sp)) => {
        if sp.to_string() != want {
          out.push(v(
            "C21",
            "location_differs",
            format!("{}: {id} reported at {want}, the indexer puts it at {sp}", p.describe),
          ));
        }
        // the reported destination is where it went
        if let (Some(dest), Some(u)) = (r["destination"].as_str(), after.utxos.get(&sp.outpoint)) {
          let got = bitcoin::Address::from_script(&u.script, after.params.network)
            .map(|a| a.to_string())
            .unwrap_or_default();
          if got != dest {
            out.push(v("C21", "destination_differs", format!("{}: {id} reported to {dest}, sits at {got}", p.describe)));
          }
        }
      }
      _ => out.push(v(
        "C21",
        "reported_inscription_missing",
        format!("{}: {id} was reported but the indexer has no such inscription after mining", p.describe),
      )),
    }
  }
  // exactly the reported ids were created by the reveal
  if let Some(reveal) = reveal {
    let created: BTreeSet<ord::InscriptionId> = after
      .inscr
      .list
      .iter()
      .filter(|i| i.id.txid == reveal)
      .map(|i| i.id)
      .collect();
    if created != reported_ids {
      out.push(v(
        "C21",
        "created_set_differs",
        format!("{}: reveal {reveal} created {created:?}, reported {reported_ids:?}", p.describe),
      ));
    }
  }
  // parents return to the wallet, and are recorded as parents
  for parent in parents {
    match index.get_inscription_satpoint_by_id(*parent) {
      Ok(Some(sp)) => {
        let mine = after.utxos.get(&sp.outpoint).is_some_and(|u| owned.contains(&u.script));
        if !mine {
          out.push(v(
            "C21",
            "parent_left_the_wallet",
            format!("{}: parent {parent} is now at {sp}, which is not a wallet output", p.describe),
          ));
        }
      }
      _ => out.push(v("C21", "parent_lost", format!("{}: parent {parent} has no location", p.describe))),
    }
  }
  // the commit spends no inscribed or runic output
  if let Some(commit) = commit
    && let Some(tx) = p.txs.iter().find(|t| t.compute_txid() == commit)
  {
    for i in &tx.input {
      // a reinscription is about the inscribed output named by `satpoint`:
      // what sits on the targeted sat is its subject, anything on other sats
      // of that output is not
      if Some(i.previous_output) == subject {
        let elsewhere: Vec<ord::InscriptionId> = p
          .before
          .inscr
          .list
          .iter()
          .filter(|x| inscriptions_on(&p.before, &i.previous_output).contains(&x.id) && x.sat != target_sat)
          .map(|x| x.id)
          .collect();
        if !elsewhere.is_empty() {
          out.push(v(
            "C21",
            "commit_spends_non_cardinal",
            format!(
              "{}: commit {commit} spends {} to reinscribe sat {target_sat:?}, but the output also holds {elsewhere:?} on other sats",
              p.describe, i.previous_output
            ),
          ));
        }
        continue;
      }
      let (runes, inscribed) = holdings(&p.before, &i.previous_output);
      if inscribed > 0 || !runes.is_empty() {
        out.push(v(
          "C21",
          "commit_spends_non_cardinal",
          format!(
            "{}: commit {commit} spends {} holding {inscribed} inscription(s) and runes {runes:?}",
            p.describe, i.previous_output
          ),
        ));
      }
    }
  }
}

/// An error message without the identifiers and amounts in it (a fact key).
fn rejection_key(e: &str) -> String {
  let mut key = String::new();
  let mut run = String::new();
  let flush = |run: &mut String, key: &mut String| {
    if run.len() >= 8 {
      key.push('#');
    } else {
      key.push_str(run);
    }
    run.clear();
  };
  for c in e.chars().take(160) {
    if c.is_ascii_hexdigit() || c == '.' || c == ':' {
      run.push(c);
    } else {
      flush(&mut run, &mut key);
      if c.is_ascii_digit() { key.push('#') } else { key.push(c) }
    }
  }
  flush(&mut run, &mut key);
  let key: String = key.chars().map(|c| if c.is_ascii_digit() { '#' } else { c }).collect();
  key.chars().take(70).collect()
}

/// C24: whatever the wallet asked the node to sign, and whatever it then tried
/// to broadcast, audited against the reference model and the offer as presented.
fn audit_offer(
  m: &Model,
  wv: &WalletView,
  offer: &Offer,
  signs: &[bitcoin::Psbt],
  attempts: &[Transaction],
  describe: &str,
  out: &mut Vec<Violation>,
) {
  let presented = &offer.psbt;
  let tx = &presented.unsigned_tx;
  let owned = |o: &OutPoint| m.utxos.get(o).is_some_and(|u| wv.owned.contains(&u.script));
  let ours: Vec<usize> = (0..tx.input.len()).filter(|n| owned(&tx.input[*n].previous_output)).collect();
  let mut bad = |class: &str, detail: String| out.push(v("C24", class, format!("{describe}: {detail}")));
  if offer.dry_run && (!signs.is_empty() || !attempts.is_empty()) {
    bad("dry_run_signed", "--dry-run asked the node to sign or broadcast".into());
  }
  for request in signs {
    if request.unsigned_tx != *tx {
      bad("signed_another_transaction", "the transaction handed to the node for signing is not the presented one".into());
      continue;
    }
    if ours.len() != 1 {
      bad(
        "signed_with_wallet_inputs",
        format!("signed an offer that spends {} wallet outputs", ours.len()),
      );
      continue;
    }
    let seller = tx.input[ours[0]].previous_output;
    let ids = inscriptions_on(m, &seller);
    if ids != vec![offer.inscription] {
      bad(
        "signed_wrong_inscriptions",
        format!("signed away {seller}, which holds {ids:?}; the command named {}", offer.inscription),
      );
    }
    let runes = holdings(m, &seller).0;
    if !runes.is_empty() {
      bad("signed_runes_away", format!("signed away {seller}, which holds runes {runes:?}"));
    }
    let received: u64 = tx
      .output
      .iter()
      .filter(|o| wv.owned.contains(&o.script_pubkey))
      .map(|o| o.value.to_sat())
      .sum();
    let given: u64 = ours
      .iter()
      .map(|n| m.utxos[&tx.input[*n].previous_output].value)
      .sum();
    let change = received as i64 - given as i64;
    if change != offer.amount as i64 {
      bad(
        "signed_wrong_amount",
        format!("signed an offer that changes the wallet's balance by {change} sat; the command named {} sat", offer.amount),
      );
    }
    for (n, input) in presented.inputs.iter().enumerate() {
      if n != ours[0] && input.final_script_sig.is_none() && input.final_script_witness.is_none() {
        bad(
          "signed_before_counterparty",
          format!("signed although input {n} ({}) of the counterparty is not signed", tx.input[n].previous_output),
        );
      }
    }
  }
  for sent in attempts {
    if ours.len() != 1 {
      bad("broadcast_invalid_offer", format!("broadcast an offer that spends {} wallet outputs", ours.len()));
      continue;
    }
    if sent.input.len() != tx.input.len() {
      bad(
        "broadcast_other_inputs",
        format!("broadcast a transaction with {} inputs, the offer has {}", sent.input.len(), tx.input.len()),
      );
      continue;
    }
    for (n, input) in presented.inputs.iter().enumerate() {
      if n == ours[0] {
        continue;
      }
      let was_sig = input.final_script_sig.clone().unwrap_or_default();
      let was_wit = input.final_script_witness.clone().unwrap_or_default();
      if sent.input[n].previous_output != tx.input[n].previous_output
        || sent.input[n].script_sig != was_sig
        || sent.input[n].witness != was_wit
      {
        bad(
          "counterparty_signature_changed",
          format!(
            "broadcast a transaction in which the signature of input {n} ({}) differs from the one presented",
            tx.input[n].previous_output
          ),
        );
      }
    }
  }
}

/// C21: the etching of a batch created the named rune with its premine at
/// the reported output; `sat` / `satpoint` batches inscribed that sat.
fn settle_batch_extras(
  ex: &Exec,
  after: &Model,
  p: &Pending,
  etching: Option<&EtchWant>,
  target_sat: Option<u64>,
  out: &mut Vec<Violation>,
  facts: &mut BTreeMap<String, u64>,
) {
  let Ok(j) = serde_json::from_str::<serde_json::Value>(&p.stdout) else {
    return;
  };
  if let Some(sat) = target_sat {
    *facts.entry("batch.targeted_sat_settled".into()).or_default() += 1;
    for r in j["inscriptions"].as_array().cloned().unwrap_or_default() {
      let Some(id) = r["id"].as_str().and_then(|s| s.parse::<ord::InscriptionId>().ok()) else {
        continue;
      };
      let got = after.inscr.list.iter().find(|i| i.id == id).and_then(|i| i.sat);
      if got != Some(sat) {
        out.push(v(
          "C21",
          "wrong_sat",
          format!("{}: {id} was to be inscribed on sat {sat}, it is on {got:?}", p.describe),
        ));
      }
    }
  }
  let Some(want) = etching else {
    return;
  };
  *facts.entry("batch.etchings_settled".into()).or_default() += 1;
  let reveal: Option<bitcoin::Txid> = j["reveal"].as_str().and_then(|s| s.parse().ok());
  let reported = &j["rune"];
  if reported["rune"].as_str() != Some(want.rune.to_string().as_str()) {
    out.push(v(
      "C21",
      "rune_not_reported",
      format!("{}: output reports rune {:?}", p.describe, reported["rune"]),
    ));
  }
  let index = ex.index();
  let entry = index
    .runes()
    .unwrap_or_default()
    .into_iter()
    .find(|(_, e)| e.spaced_rune == want.rune);
  let Some((id, entry)) = entry else {
    out.push(v(
      "C21",
      "rune_not_etched",
      format!("{}: after mining commit and reveal the index has no rune {}", p.describe, want.rune),
    ));
    return;
  };
  if Some(entry.etching) != reveal
    || entry.premine != want.premine
    || entry.divisibility != want.divisibility
    || entry.terms.map(|t| (t.amount.unwrap_or(0), t.cap.unwrap_or(0))) != want.terms
  {
    out.push(v(
      "C21",
      "rune_entry_differs",
      format!(
        "{}: rune {} etched by {} with premine {} divisibility {} terms {:?}; requested premine {} divisibility {} terms {:?} in reveal {reveal:?}",
        p.describe, want.rune, entry.etching, entry.premine, entry.divisibility, entry.terms, want.premine, want.divisibility, want.terms
      ),
    ));
  }
  let location: Option<OutPoint> = reported["location"].as_str().and_then(|s| s.parse().ok());
  let balances: BTreeMap<OutPoint, BTreeMap<RuneId, u128>> = index
    .get_rune_balances()
    .unwrap_or_default()
    .into_iter()
    .map(|(o, l)| (o, l.into_iter().collect()))
    .collect();
  if want.premine > 0 {
    let at = location.and_then(|o| balances.get(&o)).and_then(|b| b.get(&id)).copied().unwrap_or(0);
    if at != want.premine {
      let holders: Vec<String> = balances
        .iter()
        .filter(|(_, b)| b.contains_key(&id))
        .map(|(o, b)| format!("{o}={}", b[&id]))
        .collect();
      out.push(v(
        "C21",
        "premine_not_at_reported_output",
        format!(
          "{}: premine {} of {} reported at {location:?}, which holds {at}; holders: {holders:?}",
          p.describe, want.premine, want.rune
        ),
      ));
    }
  } else if location.is_some() {
    out.push(v(
      "C21",
      "premine_location_without_premine",
      format!("{}: no premine, but a location {location:?} is reported", p.describe),
    ));
  }
}

/// Runes and inscriptions held by an output, by the reference model.
fn holdings(m: &Model, o: &OutPoint) -> (BTreeMap<RuneId, u128>, usize) {
  let runes = m.runes.balances.get(o).cloned().unwrap_or_default();
  let inscribed = m
    .utxos
    .get(o)
    .map(|u| {
      m.inscr
        .list
        .iter()
        .filter(|i| i.sat.is_some_and(|s| crate::model::offset_of(&u.ranges, s).is_some()))
        .count()
    })
    .unwrap_or(0);
  (runes, inscribed)
}

struct Pending {
  describe: String,
  stdout: String,
  expect: Expect,
  txs: Vec<Transaction>,
  before: std::sync::Arc<Model>,
  owned_before: BTreeSet<ScriptBuf>,
}

pub fn run_wallet(property: &str, sc: &Scenario) -> RunReport {
  let start = std::time::Instant::now();
  let mut ctx = Ctx {
    property: property.into(),
    report: RunReport {
      seed: sc.seed,
      property: property.into(),
      profile: sc.profile.clone(),
      ..Default::default()
    },
    oracle_rng: Rng::new(sc.seed).fork("oracle"),
  };
  let mut ex = Exec::new(&sc.config, sc.seed);
  ex.sim.snapshot(|s| {
    s.world.create_wallet(WALLET);
    s.world.wallet_rng = Rng::new(sc.seed).fork("coin-selection");
  });
  let mut web: Option<(Web, u16)> = None;
  let mut pending: Vec<Pending> = Vec::new();
  let mut out: Vec<Violation> = Vec::new();
  let mut stop = false;
  let mut commands = 0u64;
  let mut succeeded = 0u64;
  let mut rejected: BTreeMap<String, u64> = BTreeMap::new();
  let mut funded_inputs = 0u64;
  let mut offers_signed = 0u64;
  let mut offers_accepted = 0u64;

  for op in &sc.ops {
    if stop {
      break;
    }
    match op {
      Op::Mine(b) => ex.mine(b),
      Op::Update(u) => {
        // the explorer holds the index: keep it across updates
        let r = ex.update(u);
        if !fault_free_update_ok(&r, &mut ctx) {
          stop = true;
          continue;
        }
        // settle the commands whose transactions are now mined
        let (after, count) = ex.sim.snapshot(|s| (s.world.tip_model().clone(), s.world.best.len() as u32));
        if ex.index().block_count().unwrap_or(0) != count {
          continue;
        }
        let index_balances: BTreeMap<OutPoint, BTreeMap<RuneId, u128>> = ex
          .index()
          .get_rune_balances()
          .unwrap_or_default()
          .into_iter()
          .map(|(o, l)| (o, l.into_iter().collect()))
          .collect();
        let index_burned: BTreeMap<RuneId, u128> = ex
          .index()
          .runes()
          .unwrap_or_default()
          .into_iter()
          .map(|(id, e)| (id, e.burned))
          .collect();
        for p in pending.drain(..) {
          if property == "C21"
            && let Expect::Batch {
              parents,
              count,
              etching,
              target_sat,
              subject,
            } = &p.expect
          {
            ctx.report.checks += 1;
            settle_batch(&ex, &after, &p, parents, *count, *subject, *target_sat, &mut out);
            settle_batch_extras(&ex, &after, &p, etching.as_ref(), *target_sat, &mut out, &mut ctx.report.facts);
            continue;
          }
          if property != "C22" {
            continue;
          }
          let Expect::Move { to, burn, .. } = &p.expect else {
            continue;
          };
          ctx.report.checks += 1;
          let owned_after = ex.sim.snapshot(|s| s.world.wallet_side.wallets[WALLET].scripts.clone());
          for tx in &p.txs {
            let txid = tx.compute_txid();
            if !after.utxos.keys().any(|o| o.txid == txid) && tx.output.iter().any(|o| !o.script_pubkey.is_op_return()) {
              // not mined (dropped): nothing to settle
              continue;
            }
            // what the inputs carried
            let mut carried: BTreeMap<RuneId, u128> = BTreeMap::new();
            for i in &tx.input {
              for (id, a) in holdings(&p.before, &i.previous_output).0 {
                *carried.entry(id).or_default() += a;
              }
            }
            // where it went, by the real indexer
            let mut to_script: BTreeMap<(ScriptBuf, RuneId), u128> = BTreeMap::new();
            let mut to_wallet: BTreeMap<RuneId, u128> = BTreeMap::new();
            for (vout, o) in tx.output.iter().enumerate() {
              let op = OutPoint {
                txid,
                vout: vout as u32,
              };
              for (id, a) in index_balances.get(&op).cloned().unwrap_or_default() {
                *to_script.entry((o.script_pubkey.clone(), id)).or_default() += a;
                if owned_after.contains(&o.script_pubkey) || p.owned_before.contains(&o.script_pubkey) {
                  *to_wallet.entry(id).or_default() += a;
                }
              }
            }
            let mut want_to: BTreeMap<(ScriptBuf, RuneId), u128> = BTreeMap::new();
            for (s, id, a) in to {
              *want_to.entry((s.clone(), *id)).or_default() += a;
            }
            for ((script, id), a) in &want_to {
              let got = to_script.get(&(script.clone(), *id)).copied().unwrap_or(0);
              if got != *a {
                out.push(v(
                  "C22",
                  "recipient_amount",
                  format!("{}: recipient holds {got} of {id} after mining, {a} were requested", p.describe),
                ));
              }
            }
            for (id, had) in &carried {
              let burned_before = p.before.runes.runes.get(id).map(|r| r.burned).unwrap_or(0);
              let burned_now = index_burned.get(id).copied().unwrap_or(0);
              let want_burn: u128 = burn.iter().filter(|(b, _)| b == id).map(|(_, a)| *a).sum();
              if burned_now - burned_before.min(burned_now) != want_burn {
                out.push(v(
                  "C22",
                  "burned_amount",
                  format!(
                    "{}: {} of {id} burned by the transaction, {want_burn} requested",
                    p.describe,
                    burned_now - burned_before.min(burned_now)
                  ),
                ));
              }
              let sent: u128 = want_to.iter().filter(|((_, i), _)| i == id).map(|(_, a)| *a).sum();
              let back = to_wallet.get(id).copied().unwrap_or(0);
              if sent + want_burn + back != *had {
                out.push(v(
                  "C22",
                  "remainder_not_returned",
                  format!(
                    "{}: inputs carried {had} of {id}; {sent} sent, {want_burn} burned, but only {back} returned to the wallet",
                    p.describe
                  ),
                ));
              }
            }
          }
        }
        if !out.is_empty() {
          stop = true;
        }
      }
      Op::WalletLock(k) => {
        ex.sim.snapshot(|s| {
          let utxos: Vec<OutPoint> = {
            let w = &s.world.wallet_side.wallets[WALLET];
            s.world
              .spendable_view()
              .into_iter()
              .filter(|(_, (o, _))| w.scripts.contains(&o.script_pubkey))
              .map(|(p, _)| p)
              .collect()
          };
          if !utxos.is_empty() {
            let p = utxos[*k as usize % utxos.len()];
            s.world.wallet_side.wallets.get_mut(WALLET).unwrap().locked.insert(p);
          }
        });
      }
      Op::Wallet(cmd) => {
        if !ex.is_open() {
          continue;
        }
        if web.is_none() {
          match Web::start(&ex, &ServerOpts::default(), &[]) {
            Ok(mut w) => match w.serve() {
              Ok(port) => web = Some((w, port)),
              Err(e) => {
                ctx.report.harness_error = Some(format!("cannot serve the explorer: {e}"));
                stop = true;
                continue;
              }
            },
            Err(e) => {
              ctx.report.harness_error = Some(e);
              stop = true;
              continue;
            }
          }
        }
        let port = web.as_ref().unwrap().1;
        let before = ex.sim.snapshot(|s| s.world.tip_model().clone());
        // the wallet refuses to run against a server that is behind the node
        if ex.index().block_count().unwrap_or(0) != before.height.unwrap_or(0) + 1 {
          continue;
        }
        let wv = wallet_view(&ex, &before);
        let Some(resolved) = resolve(cmd, &ex, &before, &wv) else {
          continue;
        };
        let mut args = ex.base_args();
        args.extend([
          "wallet".to_string(),
          "--server-url".into(),
          format!("http://127.0.0.1:{port}"),
          "--name".into(),
          WALLET.into(),
        ]);
        if let Expect::Batch { etching: Some(want), .. } = &resolved.expect {
          // the waiting wallet polls the node; simulated time passes with the
          // polls (a block every `mine_every` polls) instead of real sleeps
          args.insert(1, "--integration-test".into());
          let every = want.mine_every;
          ex.sim.snapshot(|s| s.world.wallet_side.mine_on_poll = Some((every, 12)));
        }
        args.extend(resolved.argv.clone());
        let n_before = ex.sim.snapshot(|s| s.world.wallet_side.broadcasts.len());
        let (n_signs, n_attempts) = ex.sim.snapshot(|s| {
          s.world.wallet_side.sign_fault = match &resolved.expect {
            Expect::Accept(offer) => offer.sign_fault,
            _ => None,
          };
          (s.world.wallet_side.sign_requests.len(), s.world.wallet_side.send_attempts.len())
        });
        commands += 1;
        let result = ex.cli(&args);
        ex.sim.snapshot(|s| s.world.wallet_side.mine_on_poll = None);
        let panics = crate::exec::take_panics();
        let txs: Vec<Transaction> = ex.sim.snapshot(|s| s.world.wallet_side.broadcasts[n_before..].to_vec());
        if !panics.is_empty() {
          out.push(v(
            property,
            "wallet_panic",
            format!("{}: {panics:?}", resolved.describe),
          ));
          stop = true;
          continue;
        }
        match &result {
          Ok(_) => succeeded += 1,
          Err(e) => {
            if std::env::var_os("ORDSIM_VERBOSE").is_some() {
              eprintln!("wallet command {:?} failed: {e}", resolved.argv);
            }
            let key = rejection_key(e);
            *rejected.entry(key).or_default() += 1;
          }
        }

        if let Expect::Accept(offer) = &resolved.expect {
          ctx.report.checks += 1;
          let (signs, attempts) = ex.sim.snapshot(|s| {
            s.world.wallet_side.sign_fault = None;
            (
              s.world.wallet_side.sign_requests[n_signs..].to_vec(),
              s.world.wallet_side.send_attempts[n_attempts..].to_vec(),
            )
          });
          if !signs.is_empty() {
            offers_signed += 1;
          }
          if result.is_ok() && !txs.is_empty() {
            offers_accepted += 1;
          }
          audit_offer(&before, &wv, offer, &signs, &attempts, &resolved.describe, &mut out);
        }

        // C23: what was broadcast must not spend inscribed or runic outputs
        // other than the command's subject
        if property == "C23" {
          ctx.report.checks += 1;
          let subject: BTreeSet<RuneId> = match &resolved.expect {
            Expect::Move { subject_runes, .. } => subject_runes.clone(),
            _ => BTreeSet::new(),
          };
          for tx in &txs {
            for i in &tx.input {
              funded_inputs += 1;
              let (runes, inscribed) = holdings(&before, &i.previous_output);
              if inscribed > 0 {
                out.push(v(
                  "C23",
                  "inscribed_output_spent",
                  format!(
                    "{}: broadcast {} spends {} which holds {inscribed} inscription(s)",
                    resolved.describe,
                    tx.compute_txid(),
                    i.previous_output
                  ),
                ));
              }
              if !runes.is_empty() && !runes.keys().any(|r| subject.contains(r)) {
                out.push(v(
                  "C23",
                  "runic_output_spent",
                  format!(
                    "{}: broadcast {} spends {} which holds runes {runes:?} that are not the subject of the command",
                    resolved.describe,
                    tx.compute_txid(),
                    i.previous_output
                  ),
                ));
              }
            }
          }
        }
        // C22: zero is rejected, never "all"
        if property == "C22"
          && let Expect::Move { zero_requested: true, .. } = &resolved.expect
          && result.is_ok()
          && !txs.is_empty()
        {
          out.push(v(
            "C22",
            "zero_amount_accepted",
            format!("{}: a request for zero units was accepted and broadcast", resolved.describe),
          ));
        }
        if result.is_ok() && !txs.is_empty() {
          pending.push(Pending {
            describe: resolved.describe.clone(),
            stdout: result.clone().unwrap_or_default(),
            expect: resolved.expect.clone(),
            txs,
            before,
            owned_before: wv.owned.clone(),
          });
        }
        if !out.is_empty() {
          stop = true;
        }
      }
      _ => {}
    }
  }
  drop(web);
  ctx.report.violations.extend(out);
  let final_digest = if ex.is_open() {
    ex.index()
      .verif_dump()
      .map(|d| oracle::digest(&oracle::masked(&d)))
      .unwrap_or(0)
  } else {
    0
  };
  let (selections, picks) = ex
    .sim
    .snapshot(|s| (s.world.wallet_side.coin_selections, s.world.wallet_side.adversarial_picks));
  ctx.report.facts.insert("wallet.commands".into(), commands);
  ctx.report.facts.insert("wallet.commands_succeeded".into(), succeeded);
  ctx.report.facts.insert("wallet.funded_inputs_audited".into(), funded_inputs);
  ctx.report.facts.insert("wallet.coin_selections".into(), selections);
  ctx.report.facts.insert("wallet.adversarial_picks".into(), picks);
  if property == "C24" {
    let fired = ex.sim.snapshot(|s| s.world.wallet_side.sign_faults_fired);
    ctx.report.facts.insert("offer.signed".into(), offers_signed);
    ctx.report.facts.insert("offer.accepted_and_broadcast".into(), offers_accepted);
    ctx.report.faults.insert("altered_signing_reply".into(), fired);
  }
  for (k, n) in &rejected {
    ctx.report.facts.insert(format!("wallet.rejected.{k}"), *n);
  }
  ctx.report.faults.insert("adversarial_coin_selection".into(), selections);
  let facts = std::mem::take(&mut ctx.report.facts);
  let mut report = finish_report(ex, ctx.report, sc, final_digest);
  report.facts.extend(facts);
  report.nontrivial = report.checks > 0 && succeeded >= 1;
  if property == "C21" || property == "C24" {
    report.nontrivial = report.checks > 0;
  }
  report.wall_us = start.elapsed().as_micros() as u64;
  let _ = wallet_script;
  report
}
