//! Command line: worker processes, the coordinator that aggregates them into
//! an evidence file, replay, and the determinism proof.

use {
  crate::{
    check::{self, RunReport},
    exec,
    scenario::Scenario,
    shrink,
  },
  serde::{Deserialize, Serialize},
  serde_json::{Value, json},
  std::{
    collections::{BTreeMap, BTreeSet},
    io::{BufRead, BufReader, Write},
    path::{Path, PathBuf},
    process::{Command, Stdio},
    time::{Duration, Instant, SystemTime, UNIX_EPOCH},
  },
};

pub const DEFAULT_SEED: u64 = 20260921;
const VERIF: &str = "/verif";

#[derive(Clone, Debug, Serialize, Deserialize)]
pub struct Replay {
  pub property: String,
  pub class: String,
  pub detail: String,
  pub seed: u64,
  pub tier: String,
  /// trace digest of the failing execution of `scenario`
  pub trace: u64,
  pub shrink_runs: u32,
  pub scenario: Scenario,
}

#[derive(Clone, Debug, Serialize, Deserialize)]
pub struct KnownFinding {
  pub property: String,
  /// `known` or `fixed: <commit>`
  pub status: String,
  pub class: String,
  /// every string must occur in the violation detail
  #[serde(default)]
  pub detail_contains: Vec<String>,
  pub what: String,
}

fn known_findings() -> Vec<KnownFinding> {
  let path = Path::new(VERIF).join("known_findings.json");
  match std::fs::read_to_string(&path) {
    Ok(s) => serde_json::from_str(&s).unwrap_or_else(|e| {
      eprintln!("harness error: cannot parse {}: {e}", path.display());
      std::process::exit(2);
    }),
    Err(_) => Vec::new(),
  }
}

fn matches_known<'a>(known: &'a [KnownFinding], property: &str, class: &str, detail: &str) -> Option<&'a KnownFinding> {
  known.iter().find(|k| {
    k.status == "known"
      && k.property == property
      && k.class == class
      && k.detail_contains.iter().all(|s| detail.contains(s))
  })
}

fn arg<'a>(args: &'a [String], name: &str) -> Option<&'a str> {
  args
    .iter()
    .position(|a| a == name)
    .and_then(|i| args.get(i + 1))
    .map(|s| s.as_str())
}

fn arg_u64(args: &[String], name: &str, default: u64) -> u64 {
  arg(args, name).and_then(|s| s.parse().ok()).unwrap_or(default)
}

fn now_secs() -> u64 {
  SystemTime::now().duration_since(UNIX_EPOCH).unwrap().as_secs()
}

/// One simulation on a fresh thread, so that thread-local state (std's
/// `RandomState` key counter) starts from the same value every run.
pub fn run_on_fresh_thread(property: &str, sc: &Scenario) -> RunReport {
  let property = property.to_string();
  let sc = sc.clone();
  std::thread::Builder::new()
    .name("M".into())
    .stack_size(64 << 20)
    .spawn(move || check::run(&property, &sc))
    .unwrap()
    .join()
    .unwrap_or_else(|_| RunReport {
      harness_error: Some(format!("driver thread panicked: {:?}", exec::take_panics())),
      ..Default::default()
    })
}

/// Scenario generation may execute a probe run (C13), so it gets a fresh
/// thread as well.
pub fn generate_on_fresh_thread(property: &str, seed: u64, thorough: bool) -> Scenario {
  let property = property.to_string();
  std::thread::Builder::new()
    .name("G".into())
    .stack_size(64 << 20)
    .spawn(move || check::generate(&property, seed, thorough))
    .unwrap()
    .join()
    .unwrap_or_else(|_| {
      eprintln!("harness error: generator panicked: {:?}", exec::take_panics());
      std::process::exit(2);
    })
}

/// One simulation per process: lazily initialised statics inside ord and its
/// dependencies create hash maps on first use, which shifts std's per-thread
/// hash-key counter; in a process that has already run a simulation they are
/// initialised at different moments, the cache flush order changes and with
/// it the disk operation stream. A fresh process per run makes every
/// execution start from the same state.
fn one(args: &[String]) -> i32 {
  let property = &args[0];
  let thorough = arg(args, "--tier") == Some("thorough");
  let sc = match arg(args, "--scenario") {
    Some(path) => match std::fs::read_to_string(path).ok().and_then(|t| serde_json::from_str::<Scenario>(&t).ok()) {
      Some(sc) => sc,
      None => {
        eprintln!("harness error: cannot read scenario {path}");
        return 2;
      }
    },
    None => generate_on_fresh_thread(property, arg_u64(args, "--seed", 1), thorough),
  };
  let report = run_on_fresh_thread(property, &sc);
  let emit = args.iter().any(|a| a == "--emit-scenario") || !report.violations.is_empty();
  let mut line = json!({"report": report});
  if emit {
    line["scenario"] = serde_json::to_value(&sc).unwrap();
  }
  println!("{line}");
  std::fs::remove_dir_all(format!("/verif/build/simfs/{}", std::process::id())).ok();
  0
}

/// Run `f` in a forked child of this (single-threaded, simulation-free)
/// process and return what it prints. The child starts from the same pristine
/// state as a freshly executed process, at a fraction of the cost.
fn in_fork(f: impl FnOnce() -> String) -> Result<String, String> {
  use std::io::Read;
  let mut fds = [0i32; 2];
  // SAFETY: plain libc calls; the parent has no other threads when simulations are forked
  unsafe {
    if libc::pipe(fds.as_mut_ptr()) != 0 {
      return Err("pipe failed".into());
    }
    let pid = libc::fork();
    if pid < 0 {
      return Err("fork failed".into());
    }
    if pid == 0 {
      libc::close(fds[0]);
      let text = f();
      let bytes = text.as_bytes();
      let mut off = 0;
      while off < bytes.len() {
        let n = libc::write(fds[1], bytes[off..].as_ptr() as *const libc::c_void, bytes.len() - off);
        if n <= 0 {
          break;
        }
        off += n as usize;
      }
      libc::close(fds[1]);
      std::fs::remove_dir_all(format!("/verif/build/simfs/{}", std::process::id())).ok();
      libc::_exit(0);
    }
    libc::close(fds[1]);
    let mut file = <std::fs::File as std::os::fd::FromRawFd>::from_raw_fd(fds[0]);
    let mut text = String::new();
    let read = file.read_to_string(&mut text);
    let mut status = 0;
    libc::waitpid(pid, &mut status, 0);
    if read.is_err() || text.is_empty() {
      return Err(format!("simulation process died (wait status {status:#x})"));
    }
    Ok(text)
  }
}

fn parse_child(text: Result<String, String>) -> (RunReport, Option<Scenario>) {
  match text {
    Ok(text) => {
      if let Ok(val) = serde_json::from_str::<Value>(&text)
        && let Ok(report) = serde_json::from_value::<RunReport>(val["report"].clone())
      {
        let sc = val.get("scenario").and_then(|s| serde_json::from_value(s.clone()).ok());
        return (report, sc);
      }
      (
        RunReport {
          harness_error: Some("simulation process produced no report".into()),
          ..Default::default()
        },
        None,
      )
    }
    Err(e) => (
      RunReport {
        harness_error: Some(e),
        ..Default::default()
      },
      None,
    ),
  }
}

/// Generate from a seed and run, in a pristine child process.
pub fn run_seed_isolated(property: &str, seed: u64, thorough: bool, emit: bool) -> (RunReport, Option<Scenario>) {
  parse_child(in_fork(|| {
    let sc = generate_on_fresh_thread(property, seed, thorough);
    let report = run_on_fresh_thread(property, &sc);
    let emit = emit || !report.violations.is_empty();
    let mut line = json!({"report": report});
    if emit {
      line["scenario"] = serde_json::to_value(&sc).unwrap();
    }
    line.to_string()
  }))
}

/// Run a given scenario in a pristine child process.
pub fn run_isolated(property: &str, sc: &Scenario) -> RunReport {
  parse_child(in_fork(|| {
    let report = run_on_fresh_thread(property, sc);
    json!({"report": report}).to_string()
  }))
  .0
}

fn seed_for(base: u64, i: u64) -> u64 {
  base.wrapping_mul(1 << 32).wrapping_add(i)
}

pub fn main(args: &[String]) -> i32 {
  exec::install_panic_hook();
  match args.first().map(|s| s.as_str()) {
    Some("worker") => worker(&args[1..]),
    Some("one") => one(&args[1..]),
    Some("check") => coordinator(&args[1..]),
    Some("replay") => replay(&args[1..]),
    Some("run") => run_one(&args[1..]),
    Some("determinism") => determinism(&args[1..]),
    Some("debug") => debug(&args[1..]),
    _ => {
      eprintln!("usage: ordsim check <id> --tier quick|thorough | replay <file> | run <id> --seed N | determinism <id> --count N");
      2
    }
  }
}

fn run_one(args: &[String]) -> i32 {
  let property = &args[0];
  let seed = arg_u64(args, "--seed", 1);
  let thorough = arg(args, "--tier") == Some("thorough");
  let sc = generate_on_fresh_thread(property, seed, thorough);
  if args.iter().any(|a| a == "--print") {
    println!("{}", serde_json::to_string_pretty(&sc).unwrap());
  }
  let r = run_on_fresh_thread(property, &sc);
  println!("{}", serde_json::to_string_pretty(&r).unwrap());
  if r.harness_error.is_some() {
    2
  } else if r.violations.is_empty() {
    0
  } else {
    1
  }
}

// --------------------------------------------------------------------- worker

fn worker(args: &[String]) -> i32 {
  let property = args[0].clone();
  let thorough = arg(args, "--tier") == Some("thorough");
  let base = arg_u64(args, "--base", DEFAULT_SEED);
  let index = arg_u64(args, "--index", 0);
  let stride = arg_u64(args, "--stride", 1);
  let max = arg_u64(args, "--max", u64::MAX);
  let deadline = arg_u64(args, "--deadline", u64::MAX);
  let tier = if thorough { "thorough" } else { "quick" };
  let stdout = std::io::stdout();
  let mut shrunk_classes: BTreeSet<String> = BTreeSet::new();
  let mut i = index;
  let mut done = 0u64;
  while done < max && now_secs() < deadline {
    let seed = seed_for(base, i);
    let (report, sc) = run_seed_isolated(&property, seed, thorough, done < 2);
    let mut line = json!({"kind": "run", "i": i, "report": report});
    if done < 2
      && let Some(sc) = &sc
    {
      line["scenario"] = serde_json::to_value(sc).unwrap();
    }
    {
      let mut out = stdout.lock();
      writeln!(out, "{line}").unwrap();
      out.flush().unwrap();
    }
    if report.harness_error.is_some() {
      return 2;
    }
    let Some(sc) = sc.filter(|_| !report.violations.is_empty()) else {
      i += stride;
      done += 1;
      continue;
    };
    for viol in &report.violations {
      if !shrunk_classes.insert(viol.class.clone()) {
        continue;
      }
      // a listed known finding is reported, not minimised again
      let known = known_findings();
      let budget = if matches_known(&known, &property, &viol.class, &viol.detail).is_some() {
        0
      } else if matches!(property.as_str(), "C18" | "C19" | "C21" | "C22" | "C23" | "C24") {
        80
      } else {
        250
      };
      let s = shrink::shrink(&property, &sc, &viol.class, budget);
      // confirm in a fresh process and record the trace of the minimised run
      let confirm = run_isolated(&property, &s.scenario);
      let (scenario, confirmed) = if confirm.violations.iter().any(|x| x.class == viol.class) {
        (s.scenario, confirm)
      } else {
        (sc.clone(), report.clone())
      };
      let v2 = confirmed
        .violations
        .iter()
        .find(|x| x.class == viol.class)
        .unwrap_or(viol)
        .clone();
      let replay = Replay {
        property: property.clone(),
        class: v2.class.clone(),
        detail: v2.detail.clone(),
        seed,
        tier: tier.into(),
        trace: confirmed.trace,
        shrink_runs: s.runs,
        scenario,
      };
      let dir = std::env::var_os("ORDSIM_REPLAY_DIR")
        .map(PathBuf::from)
        .unwrap_or_else(|| Path::new(VERIF).join("replays"));
      std::fs::create_dir_all(&dir).ok();
      let text = serde_json::to_string_pretty(&replay).unwrap();
      let mut h = 0xcbf29ce484222325u64;
      for b in text.bytes() {
        h ^= u64::from(b);
        h = h.wrapping_mul(0x100000001b3);
      }
      let path = dir.join(format!("{}-{}-{:08x}.json", property, seed, h as u32));
      std::fs::write(&path, text).unwrap();
      let line = json!({
        "kind": "violation",
        "property": property,
        "class": v2.class,
        "detail": v2.detail,
        "seed": seed,
        "replay": path.display().to_string(),
        "shrink_runs": s.runs,
      });
      let mut out = stdout.lock();
      writeln!(out, "{line}").unwrap();
      out.flush().unwrap();
    }
    i += stride;
    done += 1;
  }
  std::fs::remove_dir_all(format!("/verif/build/simfs/{}", std::process::id())).ok();
  0
}

// ---------------------------------------------------------------- coordinator

fn preload_path() -> Option<PathBuf> {
  let p = Path::new(VERIF).join("build/libdetrand.so");
  p.exists().then_some(p)
}

pub fn spawn_worker(property: &str, extra: &[String]) -> std::process::Child {
  let exe = std::env::current_exe().unwrap();
  let mut cmd = Command::new(exe);
  cmd.arg("worker").arg(property).args(extra);
  cmd.stdout(Stdio::piped()).stderr(Stdio::inherit());
  cmd.env_remove("RUST_LOG");
  if let Some(p) = preload_path() {
    cmd.env("LD_PRELOAD", p);
  }
  cmd.spawn().expect("spawn worker")
}

fn summarize(sc: &Value) -> Value {
  // a readable, bounded rendering of a scenario actually run
  let mut ops = Vec::new();
  let mut first_txs: Option<Value> = None;
  if let Some(list) = sc["ops"].as_array() {
    for op in list {
      if let Some(b) = op.get("Mine").and_then(|b| b.as_array()) {
        let txs: usize = b.iter().map(|x| x["txs"].as_array().map(|t| t.len()).unwrap_or(0)).sum();
        ops.push(json!({"Mine": {"blocks": b.len(), "txs": txs}}));
        if first_txs.is_none() {
          for blk in b {
            if let Some(t) = blk["txs"].as_array()
              && !t.is_empty()
            {
              first_txs = Some(json!(t.iter().take(2).collect::<Vec<_>>()));
              break;
            }
          }
        }
      } else {
        ops.push(op.clone());
      }
      if ops.len() >= 24 {
        ops.push(json!("…"));
        break;
      }
    }
  }
  json!({
    "seed": sc["seed"],
    "profile": sc["profile"],
    "config": sc["config"],
    "ops": ops,
    "first_transactions": first_txs,
  })
}

fn coordinator(args: &[String]) -> i32 {
  let property = args[0].clone();
  let tier = arg(args, "--tier")
    .map(|s| s.to_string())
    .or_else(|| std::env::var("VERIF_TIER").ok())
    .unwrap_or_else(|| "quick".into());
  let thorough = tier == "thorough";
  let base: u64 = std::env::var("VERIF_SEED")
    .ok()
    .and_then(|s| s.parse().ok())
    .unwrap_or(DEFAULT_SEED);
  let workers = arg_u64(args, "--workers", 16);
  let secs = arg_u64(
    args,
    "--secs",
    std::env::var(if thorough { "ORDSIM_THOROUGH_SECS" } else { "ORDSIM_QUICK_SECS" })
      .ok()
      .and_then(|s| s.parse().ok())
      .unwrap_or(if thorough { 600 } else { 40 }),
  );
  let max = arg_u64(args, "--max", u64::MAX);
  let start = Instant::now();
  let deadline = now_secs() + secs;
  println!("ordsim check {property} tier={tier} VERIF_SEED={base} workers={workers} budget={secs}s");

  let mut children = Vec::new();
  for w in 0..workers {
    let extra = vec![
      "--tier".to_string(),
      tier.clone(),
      "--base".into(),
      base.to_string(),
      "--index".into(),
      w.to_string(),
      "--stride".into(),
      workers.to_string(),
      "--deadline".into(),
      deadline.to_string(),
      "--max".into(),
      (max / workers + u64::from(w < max % workers)).to_string(),
    ];
    children.push(spawn_worker(&property, &extra));
  }

  let mut handles = Vec::new();
  for mut child in children {
    let stdout = child.stdout.take().unwrap();
    handles.push(std::thread::spawn(move || {
      let mut lines = Vec::new();
      for line in BufReader::new(stdout).lines().map_while(Result::ok) {
        lines.push(line);
      }
      let status = child.wait().ok().and_then(|s| s.code()).unwrap_or(-1);
      (lines, status)
    }));
  }

  let mut reports: Vec<RunReport> = Vec::new();
  let mut samples: Vec<Value> = Vec::new();
  let mut violations: Vec<Value> = Vec::new();
  let mut worker_failures = Vec::new();
  for h in handles {
    let (lines, status) = h.join().unwrap();
    if status != 0 {
      worker_failures.push(status);
    }
    for line in lines {
      let Ok(val) = serde_json::from_str::<Value>(&line) else {
        continue;
      };
      match val["kind"].as_str() {
        Some("run") => {
          if let Ok(r) = serde_json::from_value::<RunReport>(val["report"].clone()) {
            if samples.len() < 3
              && r.nontrivial
              && let Some(sc) = val.get("scenario")
            {
              samples.push(summarize(sc));
            }
            reports.push(r);
          }
        }
        Some("violation") => violations.push(val),
        _ => {}
      }
    }
  }

  let wall = start.elapsed().as_secs_f64();
  let code = finish(&property, &tier, base, workers, wall, &reports, samples, &violations, &worker_failures);
  code
}

#[allow(clippy::too_many_arguments)]
pub fn finish(
  property: &str,
  tier: &str,
  base: u64,
  workers: u64,
  wall: f64,
  reports: &[RunReport],
  mut samples: Vec<Value>,
  violations: &[Value],
  worker_failures: &[i32],
) -> i32 {
  let known = known_findings();
  let mut harness_errors: Vec<String> = reports.iter().filter_map(|r| r.harness_error.clone()).collect();
  if !worker_failures.is_empty() && harness_errors.is_empty() {
    harness_errors.push(format!("worker exit statuses {worker_failures:?}"));
  }

  let evaluations = reports.len() as u64;
  let mut distinct: BTreeSet<u64> = BTreeSet::new();
  let mut schedules: BTreeSet<u64> = BTreeSet::new();
  let mut probes: BTreeMap<String, u64> = BTreeMap::new();
  let mut faults: BTreeMap<String, u64> = BTreeMap::new();
  let mut facts: BTreeMap<String, u64> = BTreeMap::new();
  let mut inconclusive: BTreeMap<String, u64> = BTreeMap::new();
  let (mut sim_ms, mut steps, mut blocks, mut txs, mut updates, mut checks) = (0u64, 0u64, 0u64, 0u64, 0u64, 0u64);
  let mut nontrivial = 0u64;
  for r in reports {
    if r.nontrivial {
      nontrivial += 1;
      distinct.insert(r.signature);
    }
    schedules.insert(r.signature);
    for (k, val) in &r.probes {
      *probes.entry(k.clone()).or_default() += val;
    }
    for (k, val) in &r.faults {
      *faults.entry(k.clone()).or_default() += val;
    }
    for (k, val) in &r.facts {
      *facts.entry(k.clone()).or_default() += val;
    }
    if let Some(i) = &r.inconclusive {
      let key: String = i.chars().take(120).collect();
      *inconclusive.entry(key).or_default() += 1;
    }
    sim_ms += r.sim_ms;
    steps += r.steps;
    blocks += r.blocks;
    txs += r.txs;
    updates += r.updates;
    checks += r.checks;
  }

  let mut unlisted = 0;
  let mut printed_known: BTreeSet<String> = BTreeSet::new();
  let mut violation_records = Vec::new();
  for val in violations {
    let class = val["class"].as_str().unwrap_or("");
    let detail = val["detail"].as_str().unwrap_or("");
    let prop = val["property"].as_str().unwrap_or(property);
    match matches_known(&known, prop, class, detail) {
      Some(k) => {
        if printed_known.insert(k.what.clone()) {
          println!("KNOWN-FINDING: property={prop} {}", k.what);
        }
        violation_records.push(json!({"class": class, "known": true, "replay": val["replay"]}));
      }
      None => {
        unlisted += 1;
        println!("VIOLATION property={prop} replay={}", val["replay"].as_str().unwrap_or("?"));
        println!("  class={class}");
        println!("  {detail}");
        violation_records.push(json!({"class": class, "known": false, "replay": val["replay"], "detail": detail}));
      }
    }
  }
  // violations whose class was already shrunk by the same worker are counted
  let raw_violations: u64 = reports.iter().filter(|r| !r.violations.is_empty()).count() as u64;

  let rule = check::RULES
    .iter()
    .find(|(p, _)| *p == property)
    .map(|(_, r)| r.to_string())
    .unwrap_or_else(|| crate::check::rule_for(property));
  if samples.is_empty() {
    samples.push(json!({"note": "no non-trivial run in this batch"}));
  }
  let level = if property == "C13" { "fault_enumeration" } else { "exploration" };
  // C13 thorough: the enumerated history
  let mut enumerated = json!(null);
  let mut exhaustive = false;
  {
    let mut total = 0u64;
    let mut seen: BTreeSet<u64> = BTreeSet::new();
    for r in reports {
      if let (Some(t), Some(i)) = (r.facts.get("enum.total"), r.facts.get("enum.index")) {
        total = *t;
        seen.insert(*i);
      }
    }
    if total > 0 {
      exhaustive = seen.len() as u64 == total;
      enumerated = json!({
        "what": if property == "C12" {
          "for one small chain: every partition of its blocks into update calls x every commit interval from 1 to the chain length x {no reopen, reopen between all calls}, each compared with the single-update reference"
        } else if property == "C14" {
          "for one small history: a reorganisation of every depth from 1 to savepoint interval x max savepoints (the upper part is beyond what ord classifies as recoverable), landing at every occurrence of every named point of the update (block received, before / between / after the two commits, savepoint deleted / created, after savepoints, commit done)"
        } else {
          "every mutating disk operation and every hit of every named point of one small history, each under the clean, torn and all-written recovery image"
        },
        "positions": total,
        "executed": seen.len(),
        "complete": exhaustive,
      });
    }
  }
  let evidence = json!({
    "property_id": property,
    "tier": tier,
    "seed": base,
    "level": level,
    "coverage": {
      "evaluations": evaluations,
      "distinct_nontrivial": distinct.len(),
      "nontrivial_runs": nontrivial,
      "rule": rule,
      "samples": samples,
      "exhaustive": exhaustive,
      "enumerated_history": enumerated,
      "runs_per_hour": if wall > 0.0 { (evaluations as f64 / wall * 3600.0) as u64 } else { 0 },
      "seeds": format!("VERIF_SEED*2^32 + i, i in 0..{evaluations}"),
      "simulated_time_s": sim_ms / 1000,
      "simulator_steps": steps,
      "blocks_indexed_source": blocks,
      "transactions_mined": txs,
      "update_calls": updates,
      "oracle_evaluations": checks,
      "distinct_schedule_and_state_signatures": schedules.len(),
      "faults_fired": faults,
      "probes": probes,
      "facts_summed": facts,
      "inconclusive_runs": inconclusive,
      "violating_runs": raw_violations,
      "violation_records": violation_records,
      "workers": workers,
      "deterministic_randomness_shim": preload_path().is_some(),
      "components": {
        "real": ["ord::Index open/update/queries", "Updater", "InscriptionUpdater", "RuneUpdater", "Reorg", "Fetcher retry/sort/decode", "redb 3.1.1", "envelope and runestone parsers"],
        "stub": ["Bitcoin Core (SimNode)", "file under redb (SimDisk)"],
        "owned": ["M/F/T interleaving (lag and batch gates)", "back-off sleeps (simulated clock)", "getrandom (LD_PRELOAD shim)"],
      },
    },
    "assumptions": [
      "the simulated node only shows behaviours encoded in SimNode; script and signature validity are not modelled; coinbase maturity is not modelled",
      "disk model: writes acknowledged before a completed sync are durable; un-synced writes may be lost or sector-torn; file length monotone across a crash",
      "sampling of schedules and fault sequences, not enumeration, unless coverage.exhaustive is true",
    ],
    "wall_s": wall,
    "violations": unlisted,
  });
  // experiments against seeded defects write elsewhere, so that the committed
  // evidence always describes a run on the unchanged tree
  let dir = std::env::var_os("ORDSIM_EVIDENCE_DIR")
    .map(PathBuf::from)
    .unwrap_or_else(|| Path::new(VERIF).join("evidence"));
  std::fs::create_dir_all(&dir).ok();
  std::fs::write(
    dir.join(format!("{property}.json")),
    serde_json::to_string_pretty(&evidence).unwrap(),
  )
  .unwrap();

  println!(
    "{property}: {evaluations} runs ({} distinct non-trivial) in {wall:.1}s, {} update calls, {} oracle evaluations, {}s simulated, violations={unlisted}",
    distinct.len(),
    updates,
    checks,
    sim_ms / 1000
  );
  if !inconclusive.is_empty() {
    println!("inconclusive runs: {inconclusive:?}");
  }
  if !harness_errors.is_empty() {
    eprintln!("harness error: {}", harness_errors[0]);
    return 2;
  }
  if evaluations == 0 {
    eprintln!("harness error: no runs completed");
    return 2;
  }
  if unlisted > 0 { 1 } else { 0 }
}

// --------------------------------------------------------------------- replay

fn replay(args: &[String]) -> i32 {
  let path = &args[0];
  let text = match std::fs::read_to_string(path) {
    Ok(t) => t,
    Err(e) => {
      eprintln!("harness error: {e}");
      return 2;
    }
  };
  let rp: Replay = match serde_json::from_str(&text) {
    Ok(r) => r,
    Err(e) => {
      eprintln!("harness error: {e}");
      return 2;
    }
  };
  let r = run_isolated(&rp.property, &rp.scenario);
  if let Some(e) = &r.harness_error {
    eprintln!("harness error: {e}");
    return 2;
  }
  let same = r.violations.iter().find(|x| x.class == rp.class);
  match same {
    Some(viol) => {
      println!("VIOLATION property={} replay={path}", rp.property);
      println!("  class={}", viol.class);
      println!("  {}", viol.detail);
      println!(
        "  trace digest {:016x} (recorded {:016x}): {}",
        r.trace,
        rp.trace,
        if r.trace == rp.trace { "identical execution" } else { "DIFFERENT execution" }
      );
      1
    }
    None => {
      println!("replay of {path}: violation class {} did not reproduce (violations now: {:?})", rp.class, r.violations);
      0
    }
  }
}

// ---------------------------------------------------------------- determinism

/// Run `count` seeds twice each, in different worker processes and at two
/// worker counts, and compare the trace digests.
fn determinism(args: &[String]) -> i32 {
  let property = args[0].clone();
  let count = arg_u64(args, "--count", 200);
  let base = arg_u64(args, "--base", DEFAULT_SEED);
  let run = |workers: u64| -> BTreeMap<u64, (u64, u64, u64)> {
    let mut children = Vec::new();
    for w in 0..workers {
      let extra = vec![
        "--base".to_string(),
        base.to_string(),
        "--index".into(),
        w.to_string(),
        "--stride".into(),
        workers.to_string(),
        "--max".into(),
        (count / workers + u64::from(w < count % workers)).to_string(),
      ];
      children.push(spawn_worker(&property, &extra));
    }
    let mut handles = Vec::new();
    for mut child in children {
      handles.push(std::thread::spawn(move || {
        let mut rows = Vec::new();
        let stdout = child.stdout.take().unwrap();
        for line in BufReader::new(stdout).lines().map_while(Result::ok) {
          if let Ok(val) = serde_json::from_str::<Value>(&line)
            && val["kind"] == "run"
            && let Ok(r) = serde_json::from_value::<RunReport>(val["report"].clone())
          {
            rows.push((val["i"].as_u64().unwrap(), (r.trace, r.trace_len, r.signature)));
          }
        }
        child.wait().ok();
        rows
      }));
    }
    let mut map = BTreeMap::new();
    for h in handles {
      for (i, t) in h.join().unwrap() {
        map.insert(i, t);
      }
    }
    map
  };
  let a = run(1.max(arg_u64(args, "--workers-a", 3)));
  let b = run(arg_u64(args, "--workers-b", 16));
  let mut bad = 0;
  for (i, ta) in &a {
    match b.get(i) {
      Some(tb) if ta == tb => {}
      other => {
        bad += 1;
        if bad <= 10 {
          println!("seed index {i}: {ta:x?} vs {other:x?}");
        }
      }
    }
  }
  println!("determinism {property}: {} seeds run twice, {bad} mismatches", a.len());
  let _ = Duration::from_secs(0);
  if bad == 0 && a.len() as u64 == count && b.len() as u64 == count { 0 } else { 2 }
}

/// Replay a file and print the index's and the model's view of every output.
fn debug(args: &[String]) -> i32 {
  use crate::{exec::Exec, scenario::Op};
  let rp: Replay = serde_json::from_str(&std::fs::read_to_string(&args[0]).unwrap()).unwrap();
  let sc = rp.scenario;
  let mut ex = Exec::new(&sc.config, sc.seed);
  ex.sim.snapshot(|s| s.trace_log = Some(Vec::new()));
  for op in &sc.ops {
    match op {
      Op::Mine(b) => ex.mine(b),
      Op::Reorg { depth, blocks } => {
        ex.reorg(*depth, blocks);
      }
      Op::Reopen => {
        ex.reopen().ok();
      }
      Op::Update(u) => {
        let r = ex.update(u);
        println!("update -> {:?} panics {:?}", r.result, r.panics);
      }
      Op::Check | Op::Wallet(_) | Op::WalletLock(_) => {}
    }
  }
  ex.sim.snapshot(|s| {
    for (h, hash) in s.world.best.iter().enumerate() {
      let b = &s.world.blocks[hash].block;
      println!("block {h} {hash}");
      for tx in &b.txdata {
        println!(
          "  tx {} in {:?} out {:?}",
          tx.compute_txid(),
          tx.input.iter().map(|i| i.previous_output.to_string()).collect::<Vec<_>>(),
          tx.output.iter().map(|o| o.value.to_sat()).collect::<Vec<_>>()
        );
      }
    }
    let m = s.world.tip_model();
    println!("model utxos:");
    for (o, u) in &m.utxos {
      println!("  {o} value {} ranges {:?}", u.value, u.ranges);
    }
    println!("model lost {:?} destroyed {}", m.lost, m.destroyed);
  });
  let index = ex.index();
  println!("index outpoints:");
  for o in index.verif_outpoints().unwrap() {
    println!("  {o} {:?}", index.verif_utxo_entry(o).unwrap());
  }
  let gets: Vec<&String> = args
    .iter()
    .enumerate()
    .filter(|(i, _)| *i > 0 && args[i - 1] == "--get")
    .map(|(_, a)| a)
    .collect();
  if !gets.is_empty() {
    let opts = sc.server.clone().unwrap_or_default();
    let mut web = crate::web::Web::start(&ex, &opts, &[]).unwrap();
    for path in gets {
      let reply = web.get(path, &[("accept", "application/json")]);
      println!("GET {path} -> {} {:?}", reply.status, reply.headers);
      println!("{}", String::from_utf8_lossy(&reply.body).chars().take(3000).collect::<String>());
    }
    println!("panics: {:?}", crate::exec::take_panics());
  }
  if args.iter().any(|a| a == "--trace") {
    ex.sim.snapshot(|s| {
      for l in s.trace_log.as_ref().unwrap() {
        println!("T {l}");
      }
    });
  }
  0
}
