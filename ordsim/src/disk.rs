//! Simulated file under redb: volatile image, durable image, the writes
//! issued since the last `sync_data`, and a fault plan.

use {
  crate::rng::Rng,
  redb::StorageBackend,
  serde::{Deserialize, Serialize},
  std::{
    io,
    sync::{Arc, Mutex},
  },
};

pub const SECTOR: usize = 512;

#[derive(Clone, Copy, Debug, PartialEq, Eq, Serialize, Deserialize)]
pub enum Recovery {
  /// only what was synced survives
  Clean,
  /// synced image plus a subset of later writes, whole or as a sector prefix
  Torn,
  /// synced image plus every later write (kill -9 on a healthy machine)
  AllWritten,
}

#[derive(Clone, Debug, Default)]
pub struct DiskPlan {
  /// the k-th mutating operation (1-based, counted from arming) fails and the disk dies
  pub crash_at_op: Option<u64>,
  /// the k-th mutating operation fails once with EIO; the disk stays alive
  pub eio_at_op: Option<u64>,
  /// writes or extensions beyond this size fail with ENOSPC
  pub enospc_limit: Option<u64>,
}

#[derive(Clone, Debug)]
enum Pending {
  Write(u64, Vec<u8>),
  SetLen(u64),
}

#[derive(Debug, Default, Clone)]
pub struct DiskStats {
  pub reads: u64,
  pub writes: u64,
  pub set_lens: u64,
  pub syncs: u64,
  pub bytes_written: u64,
  pub failed_ops: u64,
}

#[derive(Debug)]
pub struct DiskState {
  volatile: Vec<u8>,
  durable: Vec<u8>,
  pending: Vec<Pending>,
  /// mutating operations since the plan was armed
  pub ops_since_arm: u64,
  /// mutating operations in the life of this disk object
  pub ops_total: u64,
  pub dead: bool,
  pub crash_fired: bool,
  pub eio_fired: bool,
  pub enospc_fired: u64,
  pub plan: DiskPlan,
  pub stats: DiskStats,
  /// running digest of the mutating operation stream
  pub digest: u64,
  /// ops_since_arm values at which a sync completed (for stratified crash sampling)
  pub sync_marks: Vec<u64>,
}

fn fnv(mut h: u64, bytes: &[u8]) -> u64 {
  for b in bytes {
    h ^= u64::from(*b);
    h = h.wrapping_mul(0x100000001b3);
  }
  h
}

fn dead() -> io::Error {
  io::Error::other("simulated crash: disk is gone")
}

impl DiskState {
  fn new(image: Vec<u8>) -> Self {
    Self {
      volatile: image.clone(),
      durable: image,
      pending: Vec::new(),
      ops_since_arm: 0,
      ops_total: 0,
      dead: false,
      crash_fired: false,
      eio_fired: false,
      enospc_fired: 0,
      plan: DiskPlan::default(),
      stats: DiskStats::default(),
      digest: 0xcbf29ce484222325,
      sync_marks: Vec::new(),
    }
  }

  /// Called at the start of every mutating operation. Err = the operation
  /// must fail without effect.
  fn gate(&mut self) -> io::Result<()> {
    if self.dead {
      self.stats.failed_ops += 1;
      return Err(dead());
    }
    self.ops_since_arm += 1;
    self.ops_total += 1;
    if self.plan.crash_at_op == Some(self.ops_since_arm) {
      self.dead = true;
      self.crash_fired = true;
      self.stats.failed_ops += 1;
      return Err(dead());
    }
    if self.plan.eio_at_op == Some(self.ops_since_arm) && !self.eio_fired {
      self.eio_fired = true;
      self.stats.failed_ops += 1;
      return Err(io::Error::from_raw_os_error(libc::EIO));
    }
    Ok(())
  }
}

#[derive(Clone, Debug)]
pub struct SimDisk(pub Arc<Mutex<DiskState>>);

impl SimDisk {
  pub fn new(image: Vec<u8>) -> Self {
    Self(Arc::new(Mutex::new(DiskState::new(image))))
  }

  pub fn arm(&self, plan: DiskPlan) {
    let mut s = self.0.lock().unwrap();
    s.plan = plan;
    s.ops_since_arm = 0;
    s.eio_fired = false;
    s.sync_marks.clear();
  }

  /// Kill the disk now (used by named crash points).
  pub fn kill(&self) {
    let mut s = self.0.lock().unwrap();
    s.dead = true;
    s.crash_fired = true;
  }

  pub fn is_dead(&self) -> bool {
    self.0.lock().unwrap().dead
  }

  pub fn is_empty(&self) -> bool {
    self.0.lock().unwrap().volatile.is_empty()
  }

  pub fn with<R>(&self, f: impl FnOnce(&mut DiskState) -> R) -> R {
    f(&mut self.0.lock().unwrap())
  }

  /// The image a process restarted after the crash (or after a clean close)
  /// would find. `rng` decides the torn subset.
  pub fn recovery_image(&self, mode: Recovery, rng: &mut Rng) -> (Vec<u8>, usize, usize) {
    let s = self.0.lock().unwrap();
    match mode {
      Recovery::Clean => (s.durable.clone(), 0, s.pending.len()),
      Recovery::AllWritten => (s.volatile.clone(), s.pending.len(), 0),
      Recovery::Torn => {
        let mut image = s.durable.clone();
        let mut kept = 0;
        let mut dropped = 0;
        for p in &s.pending {
          match p {
            // file length is monotone across a crash: a length change is
            // durable as soon as issued (see DESIGN §3.5)
            Pending::SetLen(len) => image.resize(*len as usize, 0),
            Pending::Write(offset, data) => {
              let offset = *offset as usize;
              match rng.below(3) {
                0 => dropped += 1,
                1 => {
                  image[offset..offset + data.len()].copy_from_slice(data);
                  kept += 1;
                }
                _ => {
                  let sectors = data.len().div_ceil(SECTOR);
                  let keep = rng.usize(sectors + 1) * SECTOR;
                  let keep = keep.min(data.len());
                  image[offset..offset + keep].copy_from_slice(&data[..keep]);
                  kept += 1;
                }
              }
            }
          }
        }
        // writes past a later shrink are cut by the final length
        image.resize(s.volatile.len(), 0);
        (image, kept, dropped)
      }
    }
  }

  pub fn clean_image(&self) -> Vec<u8> {
    self.0.lock().unwrap().volatile.clone()
  }
}

impl StorageBackend for SimDisk {
  fn len(&self) -> io::Result<u64> {
    let s = self.0.lock().unwrap();
    if s.dead {
      return Err(dead());
    }
    Ok(s.volatile.len() as u64)
  }

  fn read(&self, offset: u64, out: &mut [u8]) -> io::Result<()> {
    let mut s = self.0.lock().unwrap();
    if s.dead {
      return Err(dead());
    }
    s.stats.reads += 1;
    let offset = offset as usize;
    if offset + out.len() > s.volatile.len() {
      return Err(io::Error::new(
        io::ErrorKind::UnexpectedEof,
        "read past end of simulated disk",
      ));
    }
    out.copy_from_slice(&s.volatile[offset..offset + out.len()]);
    Ok(())
  }

  fn set_len(&self, len: u64) -> io::Result<()> {
    let mut s = self.0.lock().unwrap();
    s.gate()?;
    if let Some(limit) = s.plan.enospc_limit
      && len > limit
      && len > s.volatile.len() as u64
    {
      s.enospc_fired += 1;
      s.stats.failed_ops += 1;
      return Err(io::Error::from_raw_os_error(libc::ENOSPC));
    }
    s.stats.set_lens += 1;
    s.digest = fnv(s.digest, &[1]);
    s.digest = fnv(s.digest, &len.to_le_bytes());
    s.volatile.resize(len as usize, 0);
    s.pending.push(Pending::SetLen(len));
    Ok(())
  }

  fn sync_data(&self) -> io::Result<()> {
    let mut s = self.0.lock().unwrap();
    s.gate()?;
    s.stats.syncs += 1;
    s.digest = fnv(s.digest, &[2]);
    let pending = std::mem::take(&mut s.pending);
    for p in pending {
      match p {
        Pending::SetLen(len) => s.durable.resize(len as usize, 0),
        Pending::Write(offset, data) => {
          let offset = offset as usize;
          let end = offset + data.len();
          if s.durable.len() < end {
            s.durable.resize(end, 0);
          }
          s.durable[offset..end].copy_from_slice(&data);
        }
      }
    }
    let len = s.volatile.len();
    s.durable.resize(len, 0);
    let mark = s.ops_since_arm;
    s.sync_marks.push(mark);
    Ok(())
  }

  fn write(&self, offset: u64, data: &[u8]) -> io::Result<()> {
    let mut s = self.0.lock().unwrap();
    s.gate()?;
    let end = offset as usize + data.len();
    if end > s.volatile.len() {
      return Err(io::Error::new(
        io::ErrorKind::UnexpectedEof,
        "write past end of simulated disk",
      ));
    }
    s.stats.writes += 1;
    s.stats.bytes_written += data.len() as u64;
    // offsets and lengths only: page contents contain wall-clock timestamps
    // (timing bookkeeping), which are deliberately left real
    s.digest = fnv(s.digest, &[3]);
    s.digest = fnv(s.digest, &offset.to_le_bytes());
    s.digest = fnv(s.digest, &(data.len() as u64).to_le_bytes());
    s.volatile[offset as usize..end].copy_from_slice(data);
    s.pending.push(Pending::Write(offset, data.to_vec()));
    Ok(())
  }

  fn close(&self) -> io::Result<()> {
    Ok(())
  }
}
