/* Deterministic process randomness for simulation workers (LD_PRELOAD).
 *
 * std's HashMap keys (RandomState), tokio's and secp256k1's seeds come from
 * getrandom(2). Under this shim every call returns the same bytes, so hash
 * iteration order -- and with it the order of inserts at commit, redb's page
 * layout and the sequence of disk operations -- is identical in every worker
 * process and every run. The bytes carry no per-call state on purpose: threads
 * racing to fetch their keys all get the same answer. */
#define _GNU_SOURCE
#include <dlfcn.h>
#include <stdarg.h>
#include <stddef.h>
#include <sys/syscall.h>
#include <sys/types.h>

static void fill(unsigned char *p, size_t len) {
  unsigned long long x = 0x9e3779b97f4a7c15ULL;
  for (size_t i = 0; i < len; i++) {
    x ^= x >> 12; x ^= x << 25; x ^= x >> 27;
    p[i] = (unsigned char)((x * 0x2545F4914F6CDD1DULL) >> 56);
  }
}

ssize_t getrandom(void *buf, size_t len, unsigned int flags) {
  (void)flags;
  fill((unsigned char *)buf, len);
  return (ssize_t)len;
}

int getentropy(void *buf, size_t len) {
  fill((unsigned char *)buf, len);
  return 0;
}

/* The getrandom crate 0.2 (behind rand 0.8: thread_rng, secp256k1's auxiliary
 * signing randomness) calls syscall(SYS_getrandom, ...) directly. Everything
 * else is forwarded untouched. */
long syscall(long number, ...) {
  static long (*real)(long, ...) = 0;
  va_list ap;
  va_start(ap, number);
  long a = va_arg(ap, long), b = va_arg(ap, long), c = va_arg(ap, long);
  long d = va_arg(ap, long), e = va_arg(ap, long), f = va_arg(ap, long);
  va_end(ap);
  if (number == SYS_getrandom) {
    fill((unsigned char *)a, (size_t)b);
    return b;
  }
  if (!real) real = (long (*)(long, ...))dlsym(RTLD_NEXT, "syscall");
  return real(number, a, b, c, d, e, f);
}
