#!/bin/bash
# Runs every claimed quick check on the current tree (use on the unchanged tree to refresh the committed evidence).
cd /verif
fail=0
for p in $(python3 -c "import json;print(' '.join(c['property_id'] for c in json.load(open('MANIFEST.json'))['checks']))"); do
  ./check $p --tier ${1:-quick} 2>&1 | grep -E "^(VIOLATION|KNOWN-FINDING|C[0-9]+:|harness error)" 
  code=${PIPESTATUS[0]}
  [ $code -ne 0 ] && { echo "  -> $p exit $code"; fail=1; }
done
exit $fail
