#!/bin/bash
# usage: run_seeded.sh <patch.diff> <property id>...   (applies the change to /repo, runs the quick checks, always reverts)
set -u
PATCH=$1; shift
cd /repo || exit 2
if [ -n "$(git status --porcelain --untracked-files=no)" ]; then echo "/repo is not clean"; exit 2; fi
git apply --check "$PATCH" || { echo "patch does not apply"; exit 2; }
git apply "$PATCH"
cd /verif
export ORDSIM_EVIDENCE_DIR=/verif/build/seeded-evidence ORDSIM_REPLAY_DIR=/verif/build/seeded-replays
for p in "$@"; do
  echo "=== $p against $(basename $(dirname $PATCH))"
  ./check $p --tier quick 2>&1 | grep -E "^(VIOLATION|KNOWN-FINDING|C[0-9]+:|harness error|  class=)" | sort | uniq -c | sort -rn | head -8
  echo "exit ${PIPESTATUS[0]}"
done
git -C /repo checkout -- .
git -C /repo status --porcelain --untracked-files=no | head -3
