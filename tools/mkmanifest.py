#!/usr/bin/env python3
"""Regenerates /verif/MANIFEST.json from the tables below (run after changing what is claimed)."""
import json, subprocess

commits = subprocess.check_output(['git','-C','/repo','log','--format=%h %s','a57bfc1..HEAD']).decode().strip().split('\n')
hook_commits = [c.split()[0] for c in commits if c.split()[1].startswith('verif:')]
hook_commits.reverse()

TECH = 'deterministic simulation with fault injection: real ord::Index on simulated node/disk/clock with owned M/F/T interleaving, seeded search over schedules and fault sequences; '
NOTE = 'trusted: SimNode and SimDisk models of Bitcoin Core and the file system (DESIGN §4, §12); ord parsers used by the reference model (ParsedEnvelope::from_transaction, Runestone::decipher) are the subject of other properties; redb is real code'

claimed = {
 'C01': ('exploration','BIP reference model vs Index::list for every unspent output and the lost pseudo-output, after every update of a generated chain under transparent schedules and faults','reference-model oracle'),
 'C02': ('exploration','model-free partition of the supply + find/find_range/rare-sat audit at every checkpoint height','invariant oracle'),
 'C03': ('exploration','inscription-as-label-on-sat reference model vs stored locations, find(sat), burned/lost/unbound clauses','reference-model oracle'),
 'C04': ('exploration','model-free conservation over UTXO entries, location table, per-output listings, statistics and envelope count','invariant oracle'),
 'C05': ('exploration','model-free density of sequence numbers / numbers, id indices, inverse lookups, height brackets, fee-spent-last, jubilee','invariant oracle'),
 'C06': ('exploration','grouping by model sat: later ones flagged reinscription; clean first ones blessed','reference-model oracle'),
 'C07': ('exploration','recorded parents within (spent or revealed) set from the model, no repeats, inverse views over all pages, latest child','reference-model + invariant oracle'),
 'C08': ('exploration','model-free rune supply conservation against entries and balances, no zero/unknown/OP_RETURN/spent balances','invariant oracle'),
 'C09': ('exploration','rune reference model vs balances and burned totals, exact','reference-model oracle'),
 'C10': ('exploration','rune reference model vs mint counts; mints never exceed cap','reference-model oracle'),
 'C11': ('exploration','rune reference model vs set of runes, names, ids, dense numbers, entry fields','reference-model oracle'),
 'C12': ('exploration','twin runs: reference schedule vs generated schedule, masked canonical dumps equal at the tip and at an intermediate checkpoint; a quarter of the update calls are raced by a second Index::update that wins the write lock right after a mid-batch commit; thorough additionally enumerates, for one small chain, every partition into update calls x every commit interval x reopen/no reopen','twin-run oracle'),
 'C13': ('fault_enumeration','one disk fault per history, placed after a fault-free probe: crash at a disk operation or named point (clean / torn / all-written recovery), EIO, ENOSPC; state after restart = uninterrupted index of a committed height within [last acknowledged, in flight]; resumed tip = uninterrupted tip. A quarter of the histories contain a reorganisation that the faulted update has to roll back (crash before / inside / after the savepoint restore, named points reorg.before, reorg.restored, reorg.after): state after restart = uninterrupted index of that height on the abandoned or on the new chain, resumed result = from-scratch index of the new best chain. Quick samples placements; thorough additionally enumerates every crash position of small histories','crash-consistency oracle against fault-free twins'),
 'C14': ('exploration','reorganisations between and inside updates (named points, prefetch lag 0..31), depths around the recoverable boundary; outcome must be Ok + dump equal to a from-scratch index of the final best chain, or Unrecoverable + status flag; step budget decides termination; thorough additionally enumerates, for one small history, every landing point (named point x occurrence) x depth of a reorganisation inside the update','twin-run oracle + bounded liveness'),
 'C15': ('exploration','twin runs: reduced optional-index combination (incl. node-fetch path under batch cuts, reordered replies, retried fetches) vs all indexes, projected dump equal','twin-run oracle'),
 'C16': ('exploration','every open/update on a generated valid chain (adversarial witness and OP_RETURN bytes, every index flag combination) returns Ok and no thread panics','no-error/no-panic oracle'),
 'C17': ('exploration','script->unspent outpoints from the model vs address multimap, get_address_info and recorded script/value','reference-model oracle'),
 'C18': ('exploration','the real explorer router driven in-process at quiescent points: every inscription, inscribed/runic output, inscribed sat and block on the JSON and recursive routes, all pages, negative sat indices; fields compared with stored entries, the reference model and creation order','response-vs-model oracle'),
 'C19': ('exploration','content, undelegated-content, preview and sat-relative content routes for every inscription under server options {csp origin, decompress, hidden set}; body, content type, encoding rule, CSP on every response, hidden bodies never served, relative content never immutable','response-vs-chain-data oracle'),
 'C21': ('exploration','real `ord wallet batch` run in-process with generated batch files (separate-outputs, shared-output, same-sat with `sat` / `satpoint` / `reinscribe`, satpoints mode; parents, postage, foreign destinations, delegate, metadata, an etching with premine and terms) against the simulated node, which mines a block every n-th poll while the wallet waits for the rune commitment to mature; commit and reveal are mined, indexed by the real indexer and settled: reported ids = ids created by the reveal, reported locations and destinations = indexed ones, targeted sat inscribed, parents back in the wallet, commit spends no other inscribed or runic output, the named rune exists with the requested premine, divisibility and terms and the premine sits at the reported output','settlement oracle on the real indexer'),
 'C22': ('exploration','real `ord wallet send/burn/split` rune commands run in-process against the simulated node and the in-process explorer; every broadcast transaction is mined, indexed by the real indexer and settled: recipient amounts, burned deltas, remainders back to the wallet, zero requests rejected','settlement oracle on the real indexer'),
 'C23': ('exploration','node-funded wallet commands against a node whose fundrawtransaction picks any unlocked wallet output, trying inscribed and runic outputs first; every input of every broadcast transaction audited against the reference model','adversarial-peer oracle'),
 'C24': ('exploration','real `ord wallet offer accept` run in-process on generated PSBTs (valid offers and offers deviating in one or two respects, wallet input at any position, foreign signatures in witness or script sig) against a simulated node whose signing replies are faulted (foreign signature changed by walletprocesspsbt or by finalizepsbt, moved into the script sig, extra or missing input); every PSBT handed to the node for signing and every transaction handed to sendrawtransaction is audited against the reference model and the PSBT as presented','adversarial-peer oracle (counterparty PSBT + faulted signing replies)'),
 'C37': ('exploration','fold of the emitted event stream vs the index after every update','history-replay oracle'),
}
checks=[]
for pid,(level,text,oracle) in sorted(claimed.items()):
    checks.append({
      'property_id': pid,
      'quick_cmd': f'./check {pid} --tier quick',
      'thorough_cmd': f'./check {pid} --tier thorough',
      'evidence_file': f'/verif/evidence/{pid}.json',
      'replay_cmd_template': './check --replay {path}',
      'engine': 'ordsim',
      'level_claimed': {'category': level, 'text': text + '. Seeded search over generated chains, schedules and faults; a clean batch is evidence, not proof.', 'design_ref': f'DESIGN.md §7 {pid}'},
      'level_note': NOTE,
      'technique': TECH + oracle,
    })
pure = {
 'C20':'TransactionBuilder::build_transaction is a pure function of its arguments; no schedule, clock, fault or interleaving in the statement',
 'C25':'Runestone encipher/decipher are pure functions of a value / a transaction',
 'C26':'varint encode/decode are pure functions',
 'C27':'reveal-script building and envelope parsing are pure functions of an inscription / a witness',
 'C28':'properties encode/decode (incl. the decompression bound) is a pure function of bytes',
 'C29':'sat <-> (height, offset) arithmetic and derived attributes are pure arithmetic',
 'C30':'sat notation print/parse round-trip is pure',
 'C31':'text parsers are pure functions of a string',
 'C32':'rune name <-> integer and spacer printing/parsing are pure',
 'C33':'minimum_at_height / unlock_height are pure arithmetic',
 'C34':'Decimal / Pile print/parse is pure',
 'C35':'index value codecs are pure encode/decode pairs over each codec\'s domain; the schedule-dependent merge of special outpoints is covered under C01/C04/C12',
 'C36':'Settings::merge is a pure function of (options, env map, config file contents)',
}
pending = {
 'C21':'not claimed: batch inscribing (commit/reveal construction, reveal key backup, etching wait) is not driven by the wallet tier yet (DESIGN §14.2)',
 'C24':'not claimed: offer creation/acceptance with mutated PSBTs and altered signing replies is not driven by the wallet tier yet (DESIGN §14.2)',
}
import sys
extra = json.load(open('/verif/tools/claims_extra.json')) if False else {}
for k in list(pending):
    if k in claimed: del pending[k]
na=[{'property_id':k,'reason':v} for k,v in sorted({**pure,**pending}.items())]
m={
 'version':1,
 'setup_cmd':'./check --build',
 'hooks':{
   'guard':'cargo feature `verif` on the ord package (off by default)',
   'enable':'the harness crate /verif/ordsim depends on ord = { path = "/repo", features = ["verif"] } and is rebuilt by ./check from /repo\'s working tree',
   'baseline_off_cmd':'cd /repo && cargo nextest run --workspace --no-fail-fast --tool-config-file pb:/w/lib/nextest.toml --profile pb --test-threads 8 --offline',
   'source_commits':hook_commits,
   'add_only': True,
 },
 'engines':[{'name':'ordsim','path':'/verif/ordsim','serves_properties':sorted(claimed.keys()),'kind_free_text':'deterministic simulator: real ord::Index/Updater/Reorg/Fetcher and redb on a simulated Bitcoin Core node, simulated disk, simulated clock, with the M/F/T thread interleaving, faults and workload drawn from one seed'}],
 'checks':checks,
 'not_applicable':na,
 'notes':'Exit codes: 0 held, 1 VIOLATION line(s), 2 harness error. VERIF_SEED selects the batch (default 20260921). Known findings and fixed defects: /verif/known_findings.json. Repairs of genuine defects are the "fix:" commits in /repo.',
}
json.dump(m, open('/verif/MANIFEST.json','w'), indent=1)
print('claimed', sorted(claimed), 'hooks', hook_commits)
