#!/bin/bash
# usage: verify_mutation.sh <worktree> <test filter for the demo> [lib|integration] [extra cargo flags, e.g. "--features verif"]
# In the scratch worktree (patch.diff applied, demo.diff not applied):
#  1. full baseline suite with the change, guard off -> must match BASELINE.json stable_pass
#  2. demo test with the change -> must fail; without the change -> must pass
set -u
WT=$1; FILTER=$2; KIND=${3:-lib}; EXTRA=${4:-}
if [ "$KIND" = integration ]; then TARGET="--test integration"; else TARGET="--lib"; fi
export RUST_BACKTRACE=0
export CARGO_TARGET_DIR=$WT/target CARGO_NET_OFFLINE=true
cd $WT || exit 2
git status --short | grep -v MUTATION | grep -v '^??' 
echo "== baseline with the change"
cargo nextest run --workspace --no-fail-fast --tool-config-file pb:/w/lib/nextest.toml --profile pb --test-threads 6 --offline --build-jobs 8 > $WT/MUTATION/baseline.log 2>&1
python3 - <<PY
import json, xml.etree.ElementTree as ET
b=json.load(open('/root/.vp/BASELINE.json'))
sp=set(b['stable_pass'])
root=ET.parse('$WT/target/nextest/pb/junit.xml').getroot()
p=set()
for tc in root.iter('testcase'):
    tid=(tc.get('classname') or '')+'::'+(tc.get('name') or '')
    if tc.find('failure') is None and tc.find('error') is None and tc.find('skipped') is None: p.add(tid)
print('BASELINE_WITH_CHANGE passed', len(p), 'stable_pass missing', sorted(sp-p)[:5], len(sp-p))
PY
echo "== demo with the change (expect failure)"
git apply MUTATION/demo.diff || { echo "demo.diff does not apply"; exit 2; }
cargo test --offline $TARGET $EXTRA -j 8 -- --test-threads 4 $FILTER 2>&1 | grep -E "^test |test result" | tail -5
echo "== demo without the change (expect pass)"
git apply -R MUTATION/patch.diff
cargo test --offline $TARGET $EXTRA -j 8 -- --test-threads 4 $FILTER 2>&1 | grep -E "^test |test result" | tail -5
git apply MUTATION/patch.diff
git apply -R MUTATION/demo.diff
